"""C09 translator: wpull source (Python ast) -> exception-flow summaries (coq/Gen/ExcFlow.v).

For every function reachable from the C09 entry points through the explicit,
fail-closed resolution tables of excflow_tables.py, print a term of the summary
language of coq/Model/ExcLang.v:

    Skip | Raise C | Reraise | Prim p | Call f | Seq | Branch | Loop | Catch body dispatch | Match cs h rest | Finally

The translator does not decide what exceptions mean; it only prints structure
(raise / try / except / finally / with / call / loop / branch) and names.  What a
library primitive may raise is the hand-written table PRIMS (an ASSUMPTION,
validated by the fuzz tie of harness/corr/c09.py).  Anything the tables do not
resolve aborts with "translator cannot express <file>:<line>" (tie broken).

Over-approximations (all add paths, never remove one; sound for may-raise):
  * return / break / continue are Skip (the path simply continues);
  * data is ignored: every if is a Branch, every loop runs 0..n times;
  * a with-statement's exit code runs as a Finally;
  * a lambda / comprehension / generator expression is evaluated where it is written.
Refused (fail closed): return/break/continue inside finally, bare raise outside a
handler, a generator/coroutine object that escapes the function unconsumed and
unbound, calls and receivers the tables do not know.
"""
import ast
import hashlib
import os
import re

from harness.translate import excflow_tables as T


class Fail(Exception):
    pass


# --------------------------------------------------------------------------
# terms
# --------------------------------------------------------------------------
SKIP = ('skip',)


def seq(*ts):
    out = []
    for t in ts:
        if t is None or t == SKIP:
            continue
        if t[0] == 'seq':
            out.extend(t[1])
        else:
            out.append(t)
    if not out:
        return SKIP
    if len(out) == 1:
        return out[0]
    return ('seq', out)


def branch(*ts):
    out = []
    for t in ts:
        if t is None:
            t = SKIP
        if t[0] == 'branch':
            for u in t[1]:
                if u not in out:
                    out.append(u)
        elif t not in out:
            out.append(t)
    if not out:
        return SKIP
    if len(out) == 1:
        return out[0]
    return ('branch', out)


def loop(t):
    if t == SKIP:
        return SKIP
    return ('loop', t)


def catch(body, handlers):
    """handlers: list of (class-name list | None for catch-all, term)"""
    if body == SKIP:
        return SKIP
    return ('catch', body, handlers)


def is_callable_term(t):
    return t is not None and t[0] == 'callable'


def fin(body, f):
    if f == SKIP:
        return body
    if body == SKIP:
        return f
    return ('finally', body, f)


# --------------------------------------------------------------------------
# source index
# --------------------------------------------------------------------------
class Mod:
    def __init__(self, name, path, tree):
        self.name, self.path, self.tree = name, path, tree
        self.imports = {}     # alias -> dotted target ('pkg.mod' or 'pkg.mod.Name')
        self.classes = {}     # name -> Cls
        self.funcs = {}       # name -> FunctionDef
        self.consts = {}      # name -> ast value node (module level simple assignments)


class Cls:
    def __init__(self, mod, node):
        self.mod, self.node, self.name = mod, node, node.name
        self.qual = '%s:%s' % (mod.name, node.name)
        self.methods = {}     # name -> FunctionDef   (plain defs, getters of properties under 'name')
        self.getters = {}     # property name -> FunctionDef
        self.setters = {}
        self.bases = []       # resolved quals of loaded bases / 'ext:<dotted>'
        self.nested = {}
        for st in node.body:
            if isinstance(st, ast.FunctionDef):
                decs = [ast.unparse(d) for d in st.decorator_list]
                if 'property' in decs or 'abc.abstractproperty' in decs:
                    self.getters[st.name] = st
                elif any(d.endswith('.setter') for d in decs):
                    self.setters[st.name] = st
                else:
                    self.methods[st.name] = st


def is_gen_fn(fn):
    """generator or (generator-based) coroutine: body runs when consumed"""
    for n in walk_own(fn):
        if isinstance(n, (ast.Yield, ast.YieldFrom)):
            return True
    return False


def walk_own(fn):
    """nodes of fn's own body, not of nested defs / lambdas"""
    stack = list(fn.body)
    while stack:
        n = stack.pop()
        yield n
        for c in ast.iter_child_nodes(n):
            if isinstance(c, (ast.FunctionDef, ast.AsyncFunctionDef, ast.Lambda, ast.ClassDef)):
                continue
            stack.append(c)


class Index:
    def __init__(self, repo):
        self.repo = repo
        self.mods = {}
        self.classes = {}     # qual -> Cls
        for name in T.MODULES:
            rel = name.replace('.', '/')
            path = os.path.join(repo, rel + '.py')
            if not os.path.exists(path):
                path = os.path.join(repo, rel, '__init__.py')
            if not os.path.exists(path):
                raise Fail('module %s not found under %s' % (name, repo))
            tree = ast.parse(open(path, encoding='utf-8').read(), path)
            m = Mod(name, os.path.relpath(path, repo), tree)
            self.mods[name] = m
            for st in tree.body:
                if isinstance(st, ast.Import):
                    for a in st.names:
                        if a.asname:
                            m.imports[a.asname] = a.name
                        else:
                            m.imports[a.name.split('.')[0]] = a.name.split('.')[0]
                elif isinstance(st, ast.ImportFrom):
                    if st.level:
                        raise Fail('%s: relative import' % m.path)
                    for a in st.names:
                        m.imports[a.asname or a.name] = '%s.%s' % (st.module, a.name)
                elif isinstance(st, ast.ClassDef):
                    c = Cls(m, st)
                    m.classes[st.name] = c
                    self.classes[c.qual] = c
                elif isinstance(st, ast.FunctionDef):
                    m.funcs[st.name] = st
                elif isinstance(st, ast.Assign) and len(st.targets) == 1 and isinstance(st.targets[0], ast.Name):
                    m.consts[st.targets[0].id] = st.value
        for c in self.classes.values():
            for b in c.node.bases:
                r = self.resolve_expr(c.mod, b)
                if r and r[0] == 'class':
                    c.bases.append(r[1].qual)
                else:
                    c.bases.append('ext:' + ast.unparse(b))
        self._mro = {}

    # ---- names ----
    def dotted(self, node):
        parts = []
        while isinstance(node, ast.Attribute):
            parts.append(node.attr)
            node = node.value
        if isinstance(node, ast.Name):
            parts.append(node.id)
            return list(reversed(parts))
        return None

    def resolve_dotted(self, full):
        """'a.b.c.Name' -> ('class', Cls) | ('func', Mod, FunctionDef) | ('mod', Mod) | ('const', Mod, node) | ('ext', dotted)"""
        parts = full.split('.')
        for i in range(len(parts), 0, -1):
            mn = '.'.join(parts[:i])
            if mn in self.mods:
                m = self.mods[mn]
                rest = parts[i:]
                if not rest:
                    return ('mod', m)
                if rest[0] in m.classes:
                    c = m.classes[rest[0]]
                    if len(rest) == 1:
                        return ('class', c)
                    return ('classattr', c, rest[1:])
                if rest[0] in m.funcs and len(rest) == 1:
                    return ('func', m, m.funcs[rest[0]])
                if rest[0] in m.consts and len(rest) == 1:
                    return ('const', m, m.consts[rest[0]])
                if rest[0] in m.imports:
                    return self.resolve_dotted('.'.join([m.imports[rest[0]]] + rest[1:]))
                return ('ext', full)
        return ('ext', full)

    def resolve_expr(self, mod, node, local_names=()):
        """resolve a Name / dotted Attribute chain in module scope"""
        parts = self.dotted(node)
        if not parts:
            return None
        root = parts[0]
        if root in local_names:
            return None
        if root in mod.classes:
            full = '%s.%s' % (mod.name, '.'.join(parts))
        elif root in mod.funcs or root in mod.consts:
            full = '%s.%s' % (mod.name, '.'.join(parts))
        elif root in mod.imports:
            full = '.'.join([mod.imports[root]] + parts[1:])
        else:
            return ('ext', '.'.join(parts)) if len(parts) >= 1 else None
        return self.resolve_dotted(full)

    # ---- classes ----
    def mro(self, qual):
        if qual in self._mro:
            return self._mro[qual]
        c = self.classes[qual]
        seqs = []
        for b in c.bases:
            if b in self.classes:
                seqs.append(list(self.mro(b)))
            else:
                seqs.append([b])
        seqs.append(list(c.bases))
        res = [qual]
        seqs = [s for s in seqs if s]
        while seqs:
            for s in seqs:
                h = s[0]
                if not any(h in t[1:] for t in seqs):
                    break
            else:
                raise Fail('inconsistent MRO for %s' % qual)
            res.append(h)
            seqs = [[x for x in s if x != h] for s in seqs]
            seqs = [s for s in seqs if s]
        self._mro[qual] = res
        return res

    def subclasses(self, qual):
        return [q for q in sorted(self.classes) if qual in self.mro(q)]

    def find_method(self, recv_qual, name, after=None, kind='methods'):
        """first definition of `name` along the MRO of recv_qual (after class `after` if given).
        Returns (Cls, FunctionDef) | ('ext', base) | None"""
        mro = self.mro(recv_qual)
        if after is not None:
            mro = mro[mro.index(after) + 1:]
        for q in mro:
            if q in self.classes:
                c = self.classes[q]
                d = getattr(c, kind)
                if name in d:
                    return (c, d[name])
                if kind == 'methods' and name in c.getters:
                    return None
            else:
                return ('ext', q)
        return None


# --------------------------------------------------------------------------
# translation
# --------------------------------------------------------------------------
class FnKey:
    """a function instance: definition + dynamic receiver class + deferred-parameter bindings"""
    def __init__(self, mod, cls, fn, recv, binds=(), path=''):
        self.mod, self.cls, self.fn, self.recv, self.binds, self.path = mod, cls, fn, recv, tuple(binds), path

    @property
    def defname(self):
        if self.path:
            return '%s:%s' % (self.mod.name, self.path)
        if self.cls:
            return '%s:%s.%s' % (self.mod.name, self.cls.name, self.fn.name)
        return '%s:%s' % (self.mod.name, self.fn.name)

    @property
    def name(self):
        n = self.defname
        if self.recv and (not self.cls or self.recv != self.cls.qual):
            n += '@' + self.recv.split(':')[1]
        if self.binds:
            n += '#' + hashlib.sha1(repr(self.binds).encode()).hexdigest()[:8]
        return n


class Scope:
    """per-function translation state"""
    def __init__(self, key):
        self.key = key
        self.env = {}            # local name -> deferred term (generator/coroutine object, callable)
        self.types = {}          # local name -> list of class quals / 'ext:kind'
        self.handler_vars = []   # names bound by enclosing `except ... as name`
        self.in_handler = 0
        self.in_finally = 0
        self.local_funcs = {}    # nested defs: name -> FunctionDef
        self.params = set()
        self.lazy_returns = []
        self.call_counts = {}
        self.const_stores = {}   # name -> number of stores accounted for in consts
        self.consts = {}         # name -> python constant (parameters specialised by the caller, single-assignment locals)


class Translator:
    def __init__(self, repo):
        self.repo = repo
        self.ix = Index(repo)
        self.funs = {}           # name -> term
        self.fnkeys = {}
        self.pending = []
        self.errors = []
        self.used_safe = set()
        self.unsafe_sites = []
        self._canon_cache = {}
        self.canon_seen = {}     # normal form -> literal text, for the sites matched literally (written out by --write-canon)
        try:
            import json
            self.canon_table = json.load(open(os.path.join(os.path.dirname(os.path.abspath(__file__)), 'safe_sites_canon.json')))
        except (OSError, ValueError):
            self.canon_table = {}
        self.used_prims = set()
        self.used_classes = []   # source-level dotted class names, in first-use order
        self.notes = []
        self.prop_names = self._collect_props()
        self._lazy = {}
        self.wpull_method_names = set()
        for c in self.ix.classes.values():
            self.wpull_method_names.update(c.methods)

    def _collect_props(self):
        """property names with a non-trivial getter or any setter, in loaded classes"""
        get, sett = {}, {}
        for c in self.ix.classes.values():
            for n, f in c.getters.items():
                if not self._trivial_getter(f):
                    get.setdefault(n, []).append(c)
            for n, f in c.setters.items():
                if not self._trivial_setter(f):
                    sett.setdefault(n, []).append(c)
        return {'get': get, 'set': sett}

    @staticmethod
    def _strip_doc(body):
        if body and isinstance(body[0], ast.Expr) and isinstance(body[0].value, ast.Constant) and isinstance(body[0].value.value, str):
            return body[1:]
        return body

    def _simple_value(self, e):
        if isinstance(e, (ast.Constant, ast.Name)):
            return True
        if isinstance(e, ast.Attribute):
            return self._simple_value(e.value) and e.attr not in getattr(self, '_nontrivial_guard', ())
        return False

    def _trivial_getter(self, f):
        body = self._strip_doc(f.body)
        if not body:
            return True
        if len(body) == 1 and isinstance(body[0], ast.Return):
            v = body[0].value
            if v is None or isinstance(v, (ast.Constant, ast.Name)):
                return True
            if isinstance(v, ast.Attribute) and isinstance(v.value, ast.Name) and v.value.id == 'self' and v.attr.startswith('_'):
                return True
        if len(body) == 1 and isinstance(body[0], ast.Pass):
            return True
        return False

    def _trivial_setter(self, f):
        body = self._strip_doc(f.body)
        for st in body:
            if isinstance(st, ast.Assign) and len(st.targets) == 1 and isinstance(st.targets[0], ast.Attribute) \
                    and isinstance(st.targets[0].value, ast.Name) and st.targets[0].value.id == 'self' \
                    and st.targets[0].attr.startswith('_') and isinstance(st.value, (ast.Name, ast.Constant)):
                continue
            return False
        return True

    # ---- bookkeeping ----
    def where(self, sc, node):
        return '%s:%s' % (sc.key.mod.path, getattr(node, 'lineno', '?'))

    def fail(self, sc, node, msg):
        raise Fail('translator cannot express %s (%s): %s' % (self.where(sc, node), sc.key.name, msg))

    def cls_name(self, sc, node):
        """exception class expression -> list of source-level dotted names (a tuple constant gives several)"""
        txt = ast.unparse(node)
        if isinstance(node, ast.Tuple):
            out = []
            for e in node.elts:
                out += self.cls_name(sc, e)
            return out
        if txt in T.CLASS_EXPRS:
            names = T.CLASS_EXPRS[txt]
            for n in names:
                self._use_class(n)
            return list(names)
        r = self.ix.resolve_expr(sc.key.mod, node)
        if r is None:
            self.fail(sc, node, 'exception class expression %s' % txt)
        if r[0] == 'class':
            n = '%s.%s' % (r[1].mod.name, r[1].name)
        elif r[0] == 'const':
            # a module constant naming a tuple of classes (REMOTE_ERRORS)
            if isinstance(r[2], ast.Tuple):
                out = []
                fake = Scope(FnKey(r[1], None, None, None))
                for e in r[2].elts:
                    out += self.cls_name(fake, e)
                return out
            self.fail(sc, node, 'exception class constant %s' % txt)
        elif r[0] == 'ext':
            n = r[1]
            if '.' not in n:
                if n not in T.BUILTIN_EXCEPTIONS:
                    self.fail(sc, node, 'unknown exception class %s' % txt)
                n = 'builtins.' + n
        else:
            self.fail(sc, node, 'exception class expression %s' % txt)
        self._use_class(n)
        return [n]

    def _use_class(self, n):
        if n not in self.used_classes:
            self.used_classes.append(n)

    def prim(self, name):
        if name not in T.PRIMS:
            raise Fail('primitive %s is not declared in PRIMS' % name)
        self.used_prims.add(name)
        for c in T.PRIMS[name][0]:
            self._use_class(c)
        if not T.PRIMS[name][0]:
            return SKIP
        return ('prim', name)

    # ---- alpha-normalised site texts: a consistent rename of locals / private attributes must not lose a SAFE_SITES entry ----
    def _rename_maps(self, key):
        """(locals of the function -> v<k>, private attributes of its class -> _f<k>), numbered in order of first occurrence"""
        ck = ('canon', id(key.fn), id(key.cls))
        if ck not in self._canon_cache:
            loc = {}
            if key.fn is not None:
                a = key.fn.args
                for p in list(a.posonlyargs) + list(a.args) + ([a.vararg] if a.vararg else []) + list(a.kwonlyargs) + \
                        ([a.kwarg] if a.kwarg else []):
                    if p.arg != 'self':
                        loc.setdefault(p.arg, 'v%d' % len(loc))
                for n in ast.walk(key.fn):
                    if isinstance(n, ast.Name) and isinstance(n.ctx, (ast.Store, ast.Del)):
                        loc.setdefault(n.id, 'v%d' % len(loc))
                    elif isinstance(n, ast.ExceptHandler) and n.name:
                        loc.setdefault(n.name, 'v%d' % len(loc))
            priv = {}
            if key.cls is not None:
                for n in ast.walk(key.cls.node):
                    if isinstance(n, ast.Attribute) and isinstance(n.value, ast.Name) and n.value.id == 'self' and \
                            n.attr.startswith('_') and not n.attr.startswith('__'):
                        priv.setdefault(n.attr, '_f%d' % len(priv))
            self._canon_cache[ck] = (loc, priv)
        return self._canon_cache[ck]

    def canon_text(self, key, text):
        import io
        import tokenize
        loc, priv = self._rename_maps(key)
        try:
            toks = list(tokenize.generate_tokens(io.StringIO(text).readline))
        except (tokenize.TokenError, IndentationError, SyntaxError):
            return None
        out = []
        for i, t in enumerate(toks):
            v = t.string
            if t.type == tokenize.NAME:
                prev = toks[i - 1].string if i else ''
                prev2 = toks[i - 2].string if i > 1 else ''
                if prev == '.':
                    if prev2 == 'self' and v in priv:
                        v = priv[v]
                elif v in loc:
                    v = loc[v]
            if t.type in (tokenize.NEWLINE, tokenize.NL, tokenize.ENDMARKER, tokenize.INDENT, tokenize.DEDENT):
                continue
            out.append(v)
        return ' '.join(out)

    def safe_lookup(self, key, kind, text):
        """the SAFE_SITES key this site stands for: the literal text, or - after a consistent rename of locals / private
        attributes - the entry of the committed alpha-normalised table (safe_sites_canon.json) with the same normal form"""
        k = (key.defname, kind, text)
        base = text.rsplit('#', 1) if kind == 'noraise' else [text]
        ct = self.canon_text(key, base[0])
        if ct is not None and kind == 'noraise':
            ct = '%s#%s' % (ct, base[1])
        if k in T.SAFE_SITES:
            if ct is not None:
                self.canon_seen['%s|%s|%s' % (key.defname, kind, ct)] = text
            return k
        if ct is not None:
            raw = self.canon_table.get('%s|%s|%s' % (key.defname, kind, ct))
            if raw is not None and (key.defname, kind, raw) in T.SAFE_SITES:
                return (key.defname, kind, raw)
        return None

    def safe(self, sc, kind, text):
        k = self.safe_lookup(sc.key, kind, text)
        if k is not None:
            self.used_safe.add(k)
            return True
        k = (sc.key.defname, kind, text)
        if k not in self.unsafe_sites:
            self.unsafe_sites.append(k)
        return False

    # ---- function instances ----
    def instance(self, key):
        n = key.name
        if n not in self.fnkeys:
            self.fnkeys[n] = key
            self.pending.append(n)
        return ('call', n)

    def run(self, entries):
        """entries: {label: [(module, class or None, function, recv class qual or None), ...]}"""
        out = {}
        for label, specs in entries.items():
            out[label] = []
            for (mn, cn, fname, recv) in specs:
                m = self.ix.mods[mn]
                if cn:
                    c = m.classes[cn]
                    recv_q = recv or c.qual
                    found = self.ix.find_method(recv_q, fname)
                    if not found or found[0] == 'ext':
                        raise Fail('entry %s.%s.%s not found' % (mn, cn, fname))
                    key = FnKey(found[0].mod, found[0], found[1], recv_q)
                else:
                    key = FnKey(m, None, m.funcs[fname], None)
                out[label].append(self.instance(key)[1])
        while self.pending:
            n = self.pending.pop()
            key = self.fnkeys[n]
            try:
                self.funs[n] = self.tr_function(key)
            except Fail as e:
                self.errors.append(str(e))
                self.funs[n] = ('unknown',)
            except RecursionError:
                self.errors.append('translator recursion limit in %s' % n)
                self.funs[n] = ('unknown',)
        return out

    def make_scope(self, key):
        sc = Scope(key)
        fn = key.fn
        a = fn.args
        allargs = a.posonlyargs + a.args + a.kwonlyargs + ([a.vararg] if a.vararg else []) + ([a.kwarg] if a.kwarg else [])
        for arg in allargs:
            sc.params.add(arg.arg)
            if arg.annotation is not None:
                t = self.type_from_annotation(sc, arg.annotation)
                if t:
                    sc.types[arg.arg] = t
        for name, term in key.binds:
            if isinstance(term, tuple) and term and term[0] == 'const':
                sc.consts[name] = term[1]
            else:
                sc.env[name] = term
        # nested defs
        for st in ast.walk(fn):
            if isinstance(st, ast.FunctionDef) and st is not fn:
                sc.local_funcs[st.name] = st
        # local variable types from constructor assignments (flow-insensitive, single class)
        for n in walk_own(fn):
            if isinstance(n, ast.Assign) and len(n.targets) == 1 and isinstance(n.targets[0], ast.Name) and isinstance(n.value, ast.Call):
                r = self.ix.resolve_expr(key.mod, n.value.func, sc.params)
                if r and r[0] == 'class':
                    sc.types.setdefault(n.targets[0].id, [])
                    if 'static:' + r[1].qual not in sc.types[n.targets[0].id]:
                        sc.types[n.targets[0].id].append('static:' + r[1].qual)   # exact dynamic class
        # ... and from literals / calls of external constructors with a known result kind
        kinds = {}
        for n in walk_own(fn):
            if isinstance(n, ast.Assign) and len(n.targets) == 1 and isinstance(n.targets[0], ast.Name):
                v, name = n.value, n.targets[0].id
                k = None
                if isinstance(v, ast.Constant) and v.value is None:
                    continue
                if isinstance(v, (ast.Dict, ast.DictComp)):
                    k = 'dict'
                elif isinstance(v, (ast.Set, ast.SetComp)):
                    k = 'set'
                elif isinstance(v, (ast.List, ast.ListComp)):
                    k = 'list'
                elif isinstance(v, ast.Call):
                    r = self.ix.resolve_expr(key.mod, v.func, sc.params)
                    if r and r[0] == 'ext' and r[1] in T.EXT_RESULT_KINDS:
                        k = T.EXT_RESULT_KINDS[r[1]]
                kinds.setdefault(name, set()).add(k)
        for name, ks in kinds.items():
            if len(ks) == 1 and None not in ks and name not in sc.types and name not in sc.params:
                sc.types[name] = ['ext:' + ks.pop()]
        return sc

    def is_lazy(self, key):
        """a plain function one of whose return values is a generator / coroutine object
        (directly a call of a generator function or of another lazy-returning function)"""
        n = key.name
        if n in self._lazy:
            return self._lazy[n]
        self._lazy[n] = False
        if is_gen_fn(key.fn):
            return False
        sc = self.make_scope(key)
        res = False
        for node in walk_own(key.fn):
            if isinstance(node, ast.Return) and isinstance(node.value, ast.Call):
                ts = self.call_targets(sc, node.value)
                if ts and any(is_gen_fn(k.fn) or self.is_lazy(k) for k in ts):
                    res = True
        self._lazy[n] = res
        return res

    def tr_function(self, key):
        sc = self.make_scope(key)
        fn = key.fn
        body = self.block(sc, fn.body)
        if self.is_lazy(key):
            self.funs[key.name + '$lazy'] = branch(*sc.lazy_returns) if sc.lazy_returns else SKIP
        # decorators
        for d in fn.decorator_list:
            dt = ast.unparse(d)
            if dt in T.DECORATORS_IGNORED or dt.endswith('.setter'):
                continue
            if dt in T.DECORATORS_WRAP:
                kind, what = T.DECORATORS_WRAP[dt]
                if kind == 'finally_self_call':
                    f = self.ix.find_method(key.recv, what)
                    if not f or f[0] == 'ext':
                        raise Fail('decorator %s: no method %s' % (dt, what))
                    body = fin(body, self.instance(FnKey(f[0].mod, f[0], f[1], key.recv)))
                continue
            raise Fail('translator cannot express %s:%d: decorator %s' % (key.mod.path, fn.lineno, dt))
        return body

    def type_from_annotation(self, sc, ann):
        txt = ast.unparse(ann)
        if txt in T.ANNOTATION_TYPES:
            return list(T.ANNOTATION_TYPES[txt])
        r = self.ix.resolve_expr(sc.key.mod, ann) if isinstance(ann, (ast.Name, ast.Attribute)) else None
        if r and r[0] == 'class':
            return [r[1].qual]
        return None

    # ---- statements ----
    def block(self, sc, stmts):
        out = []
        for s in stmts:
            out.append(self.stmt(sc, s))
            if self.definitely_exits(sc, s):
                break             # the statements after an unconditional return / raise are dead code
        return seq(*out)

    def definitely_exits(self, sc, s):
        """does control never fall through this statement to the next one of its block?
        (return / raise; an if whose taken branch - or both branches - does so)"""
        if isinstance(s, (ast.Return, ast.Raise)):
            return True
        if isinstance(s, ast.If):
            if sc.in_handler and isinstance(s.test, ast.Call) and isinstance(s.test.func, ast.Name) and s.test.func.id == 'isinstance':
                return False
            t = self.truth_of(sc, s.test)
            if t is True:
                return self.block_exits(sc, s.body)
            if t is False:
                return self.block_exits(sc, s.orelse)
            return self.block_exits(sc, s.body) and self.block_exits(sc, s.orelse)
        return False

    def block_exits(self, sc, stmts):
        return any(self.definitely_exits(sc, x) for x in stmts)

    def stmt(self, sc, s):
        if isinstance(s, ast.Expr):
            if isinstance(s.value, ast.Constant):
                return SKIP
            now, later = self.expr_d(sc, s.value)
            if later is not None:
                self.fail(sc, s, 'generator/coroutine object created and dropped: %s' % ast.unparse(s.value)[:60])
            return now
        if isinstance(s, ast.Assign):
            return self.assign(sc, s.targets, s.value, s)
        if isinstance(s, ast.AnnAssign):
            if s.value is None:
                return SKIP
            return self.assign(sc, [s.target], s.value, s)
        if isinstance(s, ast.AugAssign):
            t = self.expr(sc, s.value)
            tt = self.target(sc, s.target, s, aug=True)
            op = self.binop_effect(sc, s.op, s.target, s.value, s)
            return seq(t, tt, op)
        if isinstance(s, ast.Return):
            if sc.in_finally:
                self.fail(sc, s, 'return inside finally')
            if s.value is None:
                return SKIP
            now, later = self.expr_d(sc, s.value)
            if later is not None:
                # the function returns a lazy object: its lazy part becomes the separate function <name>$lazy,
                # run where the caller consumes the result
                if is_callable_term(later):
                    self.fail(sc, s, 'returns a local callable')
                if is_gen_fn(sc.key.fn) or not self.is_lazy(sc.key):
                    self.fail(sc, s, 'returns a generator/coroutine object (function not recognised as lazy-returning)')
                sc.lazy_returns.append(later)
                return now
            return now
        if isinstance(s, (ast.Pass, ast.Global, ast.Nonlocal, ast.Import, ast.ImportFrom)):
            return SKIP
        if isinstance(s, (ast.Break, ast.Continue)):
            if sc.in_finally:
                self.fail(sc, s, 'break/continue inside finally')
            return SKIP
        if isinstance(s, ast.Delete):
            out = []
            for t in s.targets:
                if isinstance(t, ast.Subscript):
                    out.append(self.expr(sc, t.value))
                    out.append(self.expr(sc, t.slice))
                    if not self.safe(sc, 'index', ast.unparse(t)):
                        out.append(self.prim('index'))
                elif isinstance(t, ast.Name):
                    pass
                else:
                    self.fail(sc, s, 'del target')
            return seq(*out)
        if isinstance(s, ast.If) and sc.in_handler and isinstance(s.test, ast.Call) and isinstance(s.test.func, ast.Name) \
                and s.test.func.id == 'isinstance' and len(s.test.args) == 2 and isinstance(s.test.args[0], ast.Name) \
                and sc.handler_vars and s.test.args[0].id == sc.handler_vars[-1] and sc.handler_vars[-1] \
                and not self.assigned_in(sc, sc.handler_vars[-1]):
            # a test on the class of the exception being handled: a dispatch, not a blind Branch
            classes = self.cls_name(sc, s.test.args[1])
            env0 = dict(sc.env)
            a = self.block(sc, s.body)
            env_a = sc.env
            sc.env = dict(env0)
            b = self.block(sc, s.orelse)
            sc.env = self.merge_env(env_a, sc.env)
            return ('ifcur', classes, a, b)
        if isinstance(s, ast.If) and self.const_of(sc, s.test) is not self.NOCONST:
            return self.block(sc, s.body if self.const_of(sc, s.test) else s.orelse)
        if isinstance(s, ast.If) and self.truth_of(sc, s.test) is not None:
            # the truth value is statically known although some operand is not (x or True): keep the operands' effects
            return seq(self.expr(sc, s.test), self.block(sc, s.body if self.truth_of(sc, s.test) else s.orelse))
        if isinstance(s, ast.If):
            test = self.expr(sc, s.test)
            env0 = dict(sc.env)
            a = self.block(sc, s.body)
            env_a = sc.env
            sc.env = dict(env0)
            b = self.block(sc, s.orelse)
            env_b = sc.env
            sc.env = self.merge_env(env_a, env_b)
            return seq(test, branch(a, b))
        if isinstance(s, ast.While):
            test = self.expr(sc, s.test)
            body = self.block(sc, s.body)
            orelse = self.block(sc, s.orelse)
            return seq(test, loop(seq(body, test)), orelse)
        if isinstance(s, ast.For):
            now, later = self.expr_d(sc, s.iter)
            if is_callable_term(later):
                self.fail(sc, s, 'iteration over a callable')
            it = seq(now, self.iter_effect(sc, s.iter))
            tgt = self.for_target(sc, s.target, s.iter, s)
            body = self.block(sc, s.body)
            orelse = self.block(sc, s.orelse)
            return seq(it, loop(seq(later or SKIP, tgt, body)), later or SKIP, orelse)
        if isinstance(s, ast.Try):
            return self.try_(sc, s)
        if isinstance(s, ast.With):
            return self.with_(sc, s)
        if isinstance(s, ast.Raise):
            return self.raise_(sc, s)
        if isinstance(s, ast.Assert):
            t = self.expr(sc, s.test)
            if self.safe(sc, 'assert', ast.unparse(s.test)):
                return t
            self._use_class('builtins.AssertionError')
            return seq(t, branch(SKIP, seq(self.expr(sc, s.msg) if s.msg else SKIP, ('raise', 'builtins.AssertionError'))))
        if isinstance(s, ast.FunctionDef):
            return SKIP       # nested def: effects where it is called
        if isinstance(s, ast.ClassDef):
            self.fail(sc, s, 'nested class')
        self.fail(sc, s, 'statement %s' % type(s).__name__)

    NOCONST = object()

    def const_of(self, sc, e):
        """python constant an expression statically has (using specialised parameters), or NOCONST"""
        if isinstance(e, ast.Constant):
            return e.value
        if isinstance(e, ast.Name) and e.id in sc.consts and self.store_count(sc, e.id) == sc.const_stores.get(e.id, 0):
            return sc.consts[e.id]
        if isinstance(e, ast.IfExp):
            t = self.const_of(sc, e.test)
            if t is not self.NOCONST:
                return self.const_of(sc, e.body if t else e.orelse)
        if isinstance(e, ast.UnaryOp) and isinstance(e.op, ast.Not):
            t = self.const_of(sc, e.operand)
            if t is not self.NOCONST:
                return not t
        if isinstance(e, ast.Compare) and len(e.ops) == 1:
            a, b = self.const_of(sc, e.left), self.const_of(sc, e.comparators[0])
            if a is not self.NOCONST and b is not self.NOCONST:
                op = e.ops[0]
                if isinstance(op, ast.Is):
                    return a is b
                if isinstance(op, ast.IsNot):
                    return a is not b
                if isinstance(op, ast.Eq):
                    return a == b
                if isinstance(op, ast.NotEq):
                    return a != b
        return self.NOCONST

    def truth_of(self, sc, e):
        """statically known truth value of a test: True / False / None (unknown)"""
        c = self.const_of(sc, e)
        if c is not self.NOCONST:
            return bool(c)
        if isinstance(e, ast.BoolOp):
            ts = [self.truth_of(sc, v) for v in e.values]
            if isinstance(e.op, ast.Or):
                if any(t is True for t in ts):
                    return True
                if all(t is False for t in ts):
                    return False
            else:
                if any(t is False for t in ts):
                    return False
                if all(t is True for t in ts):
                    return True
        if isinstance(e, ast.UnaryOp) and isinstance(e.op, ast.Not):
            t = self.truth_of(sc, e.operand)
            if t is not None:
                return not t
        return None

    def store_count(self, sc, name):
        if not hasattr(sc, '_stores'):
            sc._stores = {}
            for n in walk_own(sc.key.fn):
                if isinstance(n, ast.Name) and isinstance(n.ctx, ast.Store):
                    sc._stores[n.id] = sc._stores.get(n.id, 0) + 1
        return sc._stores.get(name, 0)

    def assigned_in(self, sc, name):
        """is `name` assigned (other than by the except clause) anywhere in the function?"""
        for n in walk_own(sc.key.fn):
            if isinstance(n, ast.Name) and n.id == name and isinstance(n.ctx, ast.Store):
                return True
        return False

    def merge_env(self, a, b):
        out = {}
        for k in set(a) | set(b):
            ta, tb = a.get(k), b.get(k)
            if ta is None:
                out[k] = branch(SKIP, tb)
            elif tb is None:
                out[k] = branch(ta, SKIP)
            else:
                out[k] = branch(ta, tb)
        return out

    def assign(self, sc, targets, value, node):
        if len(targets) == 1 and isinstance(targets[0], ast.Name) and self.store_count(sc, targets[0].id) == 1 \
                and targets[0].id not in sc.params:
            c = self.const_of(sc, value)
            if c is not self.NOCONST:
                sc.consts[targets[0].id] = c
                sc.const_stores[targets[0].id] = 1
        now, later = self.expr_d(sc, value)
        out = [now]
        if later is not None:
            if len(targets) == 1 and isinstance(targets[0], ast.Name):
                sc.env[targets[0].id] = later
                return seq(*out)
            self.fail(sc, node, 'generator/coroutine object stored in %s' % ast.unparse(targets[0]))
        for t in targets:
            if isinstance(t, ast.Name) and t.id in sc.env and later is None:
                # rebinding a deferred name to a plain value
                if not isinstance(value, ast.Constant):
                    # keep the deferred term as a possibility (sound: Branch)
                    pass
                else:
                    del sc.env[t.id]
            if isinstance(t, (ast.Tuple, ast.List)):
                out.append(self.unpack(sc, t, value, node))
            else:
                out.append(self.target(sc, t, node))
        return seq(*out)

    def arity_of_value(self, sc, value):
        """number of items `value` is statically known to unpack into, or None"""
        if isinstance(value, (ast.Tuple, ast.List)) and not any(isinstance(e, ast.Starred) for e in value.elts):
            return len(value.elts)
        if isinstance(value, ast.YieldFrom):
            return self.arity_of_value(sc, value.value)
        if isinstance(value, ast.Call):
            f = value.func
            if isinstance(f, ast.Attribute) and f.attr in T.ARITY_METHODS:
                return T.ARITY_METHODS[f.attr]
            txt = ast.unparse(f)
            if txt in T.ARITY_FUNCS:
                return T.ARITY_FUNCS[txt]
            targets = self.call_targets(sc, value)
            if targets:
                ars = set()
                for k in targets:
                    ars.add(self.return_arity(k.fn))
                if len(ars) == 1:
                    return ars.pop()
        return None

    @staticmethod
    def return_arity(fn):
        ars = set()
        for n in walk_own(fn):
            if isinstance(n, ast.Return):
                if isinstance(n.value, ast.Tuple) and not any(isinstance(e, ast.Starred) for e in n.value.elts):
                    ars.add(len(n.value.elts))
                else:
                    ars.add(None)
        if len(ars) == 1:
            return ars.pop()
        return None

    @staticmethod
    def yield_arity(fn):
        ars = set()
        for n in walk_own(fn):
            if isinstance(n, ast.Yield):
                if isinstance(n.value, ast.Tuple):
                    ars.add(len(n.value.elts))
                else:
                    ars.add(None)
            if isinstance(n, ast.YieldFrom):
                ars.add(None)
        if len(ars) == 1:
            return ars.pop()
        return None

    def unpack(self, sc, target, value, node):
        n = len(target.elts)
        out = []
        for e in target.elts:
            if isinstance(e, ast.Starred):
                self.fail(sc, node, 'starred unpacking')
            out.append(self.target(sc, e, node))
        ar = self.arity_of_value(sc, value)
        if ar == n or self.safe(sc, 'unpack', ast.unparse(target) + ' = ' + ast.unparse(value)):
            return seq(*out)
        return seq(self.prim('unpack'), *out)

    def for_target(self, sc, target, it, node):
        if isinstance(target, ast.Name):
            return SKIP
        if isinstance(target, (ast.Tuple, ast.List)):
            n = len(target.elts)
            out = [self.target(sc, e, node) for e in target.elts]
            ar = None
            if isinstance(it, ast.Call):
                f = it.func
                if isinstance(f, ast.Attribute) and f.attr in T.ITER_ARITY_METHODS:
                    ar = T.ITER_ARITY_METHODS[f.attr]
                elif ast.unparse(f) in T.ITER_ARITY_FUNCS:
                    ar = T.ITER_ARITY_FUNCS[ast.unparse(f)]
                    if ar == 'nargs':
                        ar = len(it.args)
                else:
                    targets = self.call_targets(sc, it)
                    if targets:
                        ars = set(self.yield_arity(k.fn) for k in targets)
                        if len(ars) == 1:
                            ar = ars.pop()
            if isinstance(it, ast.Name) and self.store_count(sc, it.id) == 1:
                for a in walk_own(sc.key.fn):
                    if isinstance(a, ast.Assign) and len(a.targets) == 1 and isinstance(a.targets[0], ast.Name) \
                            and a.targets[0].id == it.id and isinstance(a.value, (ast.Tuple, ast.List)) \
                            and all(isinstance(x, ast.Tuple) and len(x.elts) == n for x in a.value.elts):
                        ar = n
            if isinstance(it, (ast.Tuple, ast.List)) and all(isinstance(x, ast.Tuple) and len(x.elts) == n for x in it.elts):
                ar = n
            if ar == n or self.safe(sc, 'unpack', 'for ' + ast.unparse(target) + ' in ' + ast.unparse(it)):
                return seq(*out)
            return seq(self.prim('unpack'), *out)
        return self.target(sc, target, node)

    def target(self, sc, t, node, aug=False):
        """effects of storing into t"""
        if isinstance(t, ast.Name):
            return SKIP
        if isinstance(t, ast.Attribute):
            base = self.expr(sc, t.value)
            if t.attr in self.prop_names['set']:
                if self.safe(sc, 'setattr', ast.unparse(t) + ' = ' + ast.unparse(getattr(node, 'value', None) or ast.Constant(value=None))[:80]):
                    return base
                return seq(base, self.prop_call(sc, t, 'set', node))
            return base
        if isinstance(t, ast.Subscript):
            base = self.expr(sc, t.value)
            idx = self.expr(sc, t.slice)
            if isinstance(t.slice, ast.Slice):
                return seq(base, idx)
            if aug:
                if self.safe(sc, 'index', ast.unparse(t)) or self.receiver_kind(sc, t.value) in T.INDEX_SAFE_KINDS:
                    return seq(base, idx)
                return seq(base, idx, self.prim('index'))
            if self.safe(sc, 'setitem', ast.unparse(t)) or ast.unparse(t.value) in T.SETITEM_SAFE_RECEIVERS \
                    or self.receiver_kind(sc, t.value) in T.SETITEM_SAFE_KINDS:
                return seq(base, idx)
            d = self.dunder(sc, t.value, '__setitem__', node)
            if d is not None:
                return seq(base, idx, d)
            return seq(base, idx, self.prim('setitem'))
        if isinstance(t, (ast.Tuple, ast.List)):
            return seq(*[self.target(sc, e, node) for e in t.elts])
        if isinstance(t, ast.Starred):
            return self.target(sc, t.value, node)
        self.fail(sc, node, 'assignment target %s' % type(t).__name__)

    def raise_(self, sc, s):
        if s.exc is None:
            if not sc.in_handler:
                self.fail(sc, s, 'bare raise outside a handler')
            return ('reraise',)
        e = s.exc
        pre = SKIP
        if isinstance(e, ast.Name) and e.id in sc.handler_vars and sc.handler_vars[-1] == e.id:
            return ('reraise',)
        if isinstance(e, ast.Call):
            pre = seq(*[self.expr(sc, a) for a in e.args] + [self.expr(sc, k.value) for k in e.keywords])
            e = e.func
        if s.cause is not None:
            pre = seq(pre, self.expr(sc, s.cause))
        names = self.cls_name(sc, e)
        if len(names) != 1:
            self.fail(sc, s, 'raise of a tuple')
        if self.safe(sc, 'raise', ast.unparse(s.exc)[:80]):
            return pre
        return seq(pre, ('raise', names[0]))

    def try_(self, sc, s):
        body = self.block(sc, s.body)
        handlers = []
        for h in s.handlers:
            classes = None if h.type is None else self.cls_name(sc, h.type)
            sc.in_handler += 1
            sc.handler_vars.append(h.name or '')
            ht = self.block(sc, h.body)
            sc.handler_vars.pop()
            sc.in_handler -= 1
            handlers.append((classes, ht))
        orelse = self.block(sc, s.orelse)
        t = body
        if handlers:
            t = catch(body, handlers)
        t = seq(t, orelse)
        if s.finalbody:
            sc.in_finally += 1
            f = self.block(sc, s.finalbody)
            sc.in_finally -= 1
            t = fin(t, f)
        return t

    def with_(self, sc, s):
        enter, exits = [], []
        for item in s.items:
            ce = item.context_expr
            txt = ast.unparse(ce.func) if isinstance(ce, ast.Call) else ast.unparse(ce)
            spec = T.WITH_TABLE.get((sc.key.defname, txt)) or T.WITH_TABLE.get(('*', txt))
            if spec is None:
                # an object of a loaded class with __enter__/__exit__
                tys = self.type_of(sc, ce)
                if tys and all(t.replace('static:', '') in self.ix.classes for t in tys):
                    en, ex = [], []
                    for t in tys:
                        static = t.startswith('static:')
                        t = t.replace('static:', '')
                        for q in ([t] if static else self.ix.subclasses(t)):
                            fe = self.ix.find_method(q, '__enter__')
                            fx = self.ix.find_method(q, '__exit__')
                            if not fe or not fx or fe[0] == 'ext' or fx[0] == 'ext':
                                self.fail(sc, s, 'context manager %s has no __enter__/__exit__' % q)
                            en.append(self.instance(FnKey(fe[0].mod, fe[0], fe[1], q)))
                            ex.append(self.instance(FnKey(fx[0].mod, fx[0], fx[1], q)))
                    enter.append(seq(self.expr(sc, ce), branch(*en)))
                    exits.append(branch(*ex))
                    if item.optional_vars is not None and isinstance(item.optional_vars, ast.Name):
                        sc.types.setdefault(item.optional_vars.id, list(tys))
                    continue
                self.fail(sc, s, 'with %s: context manager not in WITH_TABLE' % txt)
            en_p, ex_p = spec
            args = seq(*[self.expr(sc, a) for a in (ce.args if isinstance(ce, ast.Call) else [])])
            enter.append(seq(args, self.prim(en_p) if en_p else SKIP))
            exits.append(self.named_effect(sc, ex_p, ce, s) if ex_p else SKIP)
            if item.optional_vars is not None:
                enter.append(self.target(sc, item.optional_vars, s))
        body = self.block(sc, s.body)
        t = body
        for ex in reversed(exits):
            t = fin(t, ex)
        return seq(seq(*enter), t)

    def named_effect(self, sc, spec, ce, node):
        """spec: 'prim:<name>' | 'callarg0' (call the callable passed as first argument)"""
        if spec.startswith('prim:'):
            return self.prim(spec[5:])
        if spec == 'callarg0':
            arg = ce.args[0]
            fake = ast.Call(func=arg, args=[], keywords=[])
            ast.copy_location(fake, node)
            return self.expr(sc, fake)
        raise Fail('bad WITH_TABLE spec %s' % spec)

    # ---- expressions ----
    def expr(self, sc, e):
        now, later = self.expr_d(sc, e)
        if later is not None:
            if isinstance(e, ast.Name):
                return now        # reading the variable (truth test, comparison) does not run it
            self.fail(sc, e, 'generator/coroutine object used as a plain value: %s' % ast.unparse(e)[:70])
        return now

    def expr_d(self, sc, e):
        """(effects now, deferred term or None)"""
        if e is None:
            return SKIP, None
        if isinstance(e, ast.Constant):
            return SKIP, None
        if isinstance(e, ast.Name):
            if e.id in sc.env and isinstance(e.ctx, ast.Load):
                return SKIP, sc.env[e.id]
            if e.id in sc.local_funcs and isinstance(e.ctx, ast.Load):
                key = sc.key
                fn = sc.local_funcs[e.id]
                k = FnKey(key.mod, key.cls, fn, key.recv, path='%s.<locals>.%s' % (key.defname.split(':')[1], e.id))
                return SKIP, ('callable', self.instance(k), is_gen_fn(fn))
            return SKIP, None
        if isinstance(e, ast.Call):
            return self.call(sc, e)
        if isinstance(e, ast.YieldFrom):
            now, later = self.expr_d(sc, e.value)
            if is_callable_term(later):
                self.fail(sc, e, 'yield from a callable')
            if later is None:
                txt = ast.unparse(e.value)
                if isinstance(e.value, ast.Call) and self.resolve_call(sc, e.value)[0] == 'spec':
                    return now, None       # the table entry describes the awaited effect
                if txt in T.YIELD_FROM_PLAIN.get(sc.key.defname, ()):
                    return now, None
                self.fail(sc, e, 'yield from of something that is not a known coroutine/generator: %s' % txt[:70])
            return seq(now, later), None
        if isinstance(e, ast.Yield):
            return self.expr(sc, e.value), None
        if isinstance(e, ast.Await):
            self.fail(sc, e, 'await')
        if isinstance(e, ast.Attribute):
            base = self.expr(sc, e.value)
            if isinstance(e.ctx, ast.Load) and e.attr in self.prop_names['get']:
                return seq(base, self.prop_call(sc, e, 'get', e)), None
            return base, None
        if isinstance(e, ast.Subscript):
            base = self.expr(sc, e.value)
            idx = self.expr(sc, e.slice)
            if isinstance(e.slice, ast.Slice):
                return seq(base, idx), None
            if self.safe(sc, 'index', ast.unparse(e)) or self.index_auto_safe(sc, e):
                return seq(base, idx), None
            d = self.dunder(sc, e.value, '__getitem__', e)
            if d is not None:
                return seq(base, idx, d), None
            if self.receiver_kind(sc, e.value) == 'dict':
                return seq(base, idx, self.prim('dict_key')), None
            return seq(base, idx, self.prim('index')), None
        if isinstance(e, ast.Slice):
            return seq(self.expr(sc, e.lower), self.expr(sc, e.upper), self.expr(sc, e.step)), None
        if isinstance(e, ast.BoolOp):
            ts = [self.expr(sc, v) for v in e.values]
            # later operands may be skipped
            out = ts[0]
            rest = seq(*ts[1:])
            return seq(out, branch(SKIP, rest)), None
        if isinstance(e, ast.BinOp):
            return seq(self.expr(sc, e.left), self.expr(sc, e.right), self.binop_effect(sc, e.op, e.left, e.right, e)), None
        if isinstance(e, ast.UnaryOp):
            return self.expr(sc, e.operand), None
        if isinstance(e, ast.Compare):
            return seq(self.expr(sc, e.left), *[self.expr(sc, c) for c in e.comparators]), None
        if isinstance(e, ast.IfExp):
            c = self.const_of(sc, e.test)
            if c is not self.NOCONST:
                return self.expr(sc, e.body if c else e.orelse), None
            return seq(self.expr(sc, e.test), branch(self.expr(sc, e.body), self.expr(sc, e.orelse))), None
        if isinstance(e, (ast.Tuple, ast.List, ast.Set)):
            return seq(*[self.expr(sc, x) for x in e.elts]), None
        if isinstance(e, ast.Dict):
            return seq(*[self.expr(sc, x) for x in list(e.keys) + list(e.values) if x is not None]), None
        if isinstance(e, ast.Starred):
            return self.expr(sc, e.value), None
        if isinstance(e, ast.JoinedStr):
            return seq(*[self.expr(sc, v) for v in e.values]), None
        if isinstance(e, ast.FormattedValue):
            return self.expr(sc, e.value), None
        if isinstance(e, ast.Lambda):
            return self.expr(sc, e.body), None
        if isinstance(e, (ast.ListComp, ast.SetComp, ast.GeneratorExp, ast.DictComp)):
            return self.comp(sc, e), None
        self.fail(sc, e, 'expression %s' % type(e).__name__)

    def comp(self, sc, e):
        inner = seq(self.expr(sc, e.key), self.expr(sc, e.value)) if isinstance(e, ast.DictComp) else self.expr(sc, e.elt)
        for g in reversed(e.generators):
            now, later = self.expr_d(sc, g.iter)
            if is_callable_term(later):
                self.fail(sc, e, 'iteration over a callable')
            tgt = self.for_target(sc, g.target, g.iter, e)
            conds = seq(*[self.expr(sc, c) for c in g.ifs])
            inner = seq(now, self.iter_effect(sc, g.iter), loop(seq(later or SKIP, tgt, conds, inner)), later or SKIP)
        return inner

    def dunder(self, sc, recv, name, node):
        """x[i] / x[i] = v on a receiver typed as a translated class: call its __getitem__ / __setitem__"""
        tys = self.type_of(sc, recv)
        if not tys or any(t.startswith('ext:') for t in tys):
            return None
        outs = []
        isself = isinstance(recv, ast.Name) and recv.id == 'self'
        for t in tys:
            static = t.startswith('static:')
            t = t.replace('static:', '')
            for q in ([t] if (isself or static) else self.ix.subclasses(t)):
                f = self.ix.find_method(q, name)
                if not f or f[0] == 'ext':
                    return None
                c = self.instance(FnKey(f[0].mod, f[0], f[1], q))
                if c not in outs:
                    outs.append(c)
        return branch(*outs)

    def index_auto_safe(self, sc, e):
        """syntactically safe subscripts: constant index into a value of statically known length"""
        if self.receiver_kind(sc, e.value) in T.INDEX_SAFE_KINDS:
            return True
        i = e.slice
        if isinstance(i, ast.UnaryOp) and isinstance(i.op, ast.USub) and isinstance(i.operand, ast.Constant):
            iv = -i.operand.value if isinstance(i.operand.value, int) else None
        elif isinstance(i, ast.Constant) and isinstance(i.value, int):
            iv = i.value
        else:
            return False
        if iv is None:
            return False
        v = e.value
        if isinstance(v, ast.Call):
            f = v.func
            if isinstance(f, ast.Attribute) and f.attr in ('split', 'rsplit') and iv in (0, -1) and v.args \
                    and not (isinstance(v.args[0], ast.Constant) and v.args[0].value is None):
                return True      # s.split(sep) with an explicit separator never returns an empty list
            ar = self.arity_of_value(sc, v)
            if ar is not None and -ar <= iv < ar:
                return True
        return False

    def binop_effect(self, sc, op, left, right, node):
        if isinstance(op, (ast.Div, ast.FloorDiv, ast.Mod)):
            if isinstance(op, ast.Mod) and isinstance(left, ast.Constant) and isinstance(left.value, (str, bytes)):
                return SKIP
            if isinstance(right, ast.Constant) and isinstance(right.value, (int, float)) and right.value != 0:
                return SKIP
            if self.safe(sc, 'div', ast.unparse(node)):
                return SKIP
            return self.prim('divide')
        return SKIP

    def iter_effect(self, sc, it):
        """iterating a plain value: file objects decode / read while iterated"""
        k = self.receiver_kind(sc, it)
        if k in T.ITER_KINDS:
            return self.prim(T.ITER_KINDS[k])
        return SKIP

    # ---- typing of receivers ----
    def type_of(self, sc, e):
        """list of class quals / ['ext:kind'] or None"""
        txt = ast.unparse(e)
        for scope in (sc.key.defname, sc.key.recv or '', sc.key.cls.qual if sc.key.cls else '', sc.key.mod.name):
            if (scope, txt) in T.RECV_TYPES:
                return list(T.RECV_TYPES[(scope, txt)])
        if isinstance(e, ast.Name) and e.id in sc.types and e.id not in ('self', 'cls'):
            return list(sc.types[e.id])
        if ('*', txt) in T.RECV_TYPES:
            return list(T.RECV_TYPES[('*', txt)])
        if isinstance(e, ast.Name):
            if e.id == 'self' and sc.key.recv:
                return [sc.key.recv]
            if e.id == 'cls' and sc.key.recv:
                return [sc.key.recv]
            if e.id in sc.types:
                return list(sc.types[e.id])
            r = self.ix.resolve_expr(sc.key.mod, e, sc.params)
            if r and r[0] == 'class':
                return ['static:' + r[1].qual]
        if isinstance(e, ast.Call):
            r = self.ix.resolve_expr(sc.key.mod, e.func, sc.params)
            if r and r[0] == 'class':
                return ['static:' + r[1].qual]
            if isinstance(e.func, ast.Name) and e.func.id == 'super':
                return None
        if isinstance(e, ast.Attribute):
            r = self.ix.resolve_expr(sc.key.mod, e, sc.params | set(sc.types) | {'self', 'cls'})
            if r and r[0] == 'class':
                return ['static:' + r[1].qual]
        return None

    def receiver_kind(self, sc, e):
        t = self.type_of(sc, e)
        if t and len(t) == 1 and t[0].startswith('ext:'):
            return t[0][4:]
        return None

    # ---- properties ----
    def prop_call(self, sc, attr_node, kind, node):
        name = attr_node.attr
        tys = self.type_of(sc, attr_node.value)
        cands = []
        table = 'getters' if kind == 'get' else 'setters'
        if tys and all(not t.startswith('ext:') for t in tys):
            for t in tys:
                static = t.startswith('static:')
                t = t.replace('static:', '')
                isself = isinstance(attr_node.value, ast.Name) and attr_node.value.id in ('self', 'cls')
                for q in ([t] if (isself or static) else self.ix.subclasses(t)):
                    f = self.ix.find_method(q, name, kind=table)
                    if f and f[0] != 'ext':
                        cands.append((f[0], f[1], q))
        elif tys:
            return SKIP          # external object: attribute of that name is not a wpull property
        else:
            if (sc.key.defname, ast.unparse(attr_node)) in T.PLAIN_ATTRS or ('*', ast.unparse(attr_node)) in T.PLAIN_ATTRS:
                return SKIP
            # unknown receiver: every loaded class that defines this property (class hierarchy analysis by name)
            for c in self.prop_names[kind][name]:
                for q in self.ix.subclasses(c.qual):
                    f = self.ix.find_method(q, name, kind=table)
                    if f and f[0] != 'ext':
                        cands.append((f[0], f[1], q))
        out, seen = [], set()
        for c, f, q in cands:
            triv = self._trivial_getter(f) if kind == 'get' else self._trivial_setter(f)
            if triv:
                out.append(SKIP)
                continue
            k = FnKey(c.mod, c, f, q, path='%s.%s[%s]' % (c.name, f.name, kind))
            if k.name not in seen:
                seen.add(k.name)
                out.append(self.instance(k))
        return branch(*out) if out else SKIP

    # ---- calls ----
    def call_targets(self, sc, call):
        """FnKeys a call may reach, or None when it is not a call of translated code"""
        try:
            r = self.resolve_call(sc, call, probe=True)
        except Fail:
            return None
        if r and r[0] == 'fns':
            return r[1]
        return None

    def resolve_call(self, sc, call, probe=False):
        """-> ('fns', [FnKey]) | ('term', term) | ('spec', table entry)"""
        f = call.func
        ix = self.ix
        key = sc.key
        txt = ast.unparse(f)
        # per-site / global overrides
        for scope in (key.defname, key.recv or '', '*'):
            if (scope, txt) in T.CALLS:
                spec = T.CALLS[(scope, txt)]
                if isinstance(spec, tuple) and spec[0] == 'ctor':
                    found = ix.find_method(spec[1], '__init__')
                    if not found or found[0] == 'ext':
                        return ('term', SKIP)
                    return ('fns', [FnKey(found[0].mod, found[0], found[1], spec[1])])
                if isinstance(spec, tuple) and spec[0] == 'method':
                    found = ix.find_method(spec[1], spec[2])
                    if not found or found[0] == 'ext':
                        self.fail(sc, call, 'CALLS method spec %r' % (spec,))
                    return ('fns', [FnKey(found[0].mod, found[0], found[1], spec[1])])
                return ('spec', spec)
        # super().m(...)
        if isinstance(f, ast.Attribute) and isinstance(f.value, ast.Call) and isinstance(f.value.func, ast.Name) and f.value.func.id == 'super':
            found = ix.find_method(key.recv, f.attr, after=key.cls.qual)
            if found is None or found[0] == 'ext':
                if f.attr == '__init__' or (found and found[1] in T.EXT_BASES_PURE):
                    return ('term', SKIP)
                self.fail(sc, call, 'super().%s not found' % f.attr)
            return ('fns', [FnKey(found[0].mod, found[0], found[1], key.recv)])
        if isinstance(f, ast.Name):
            n = f.id
            if n in sc.local_funcs and n not in sc.env:
                fn = sc.local_funcs[n]
                return ('fns', [FnKey(key.mod, key.cls, fn, key.recv, path='%s.<locals>.%s' % (key.defname.split(':')[1], n))])
            if n in sc.env:
                t = sc.env[n]
                if not is_callable_term(t):
                    self.fail(sc, call, 'call of a generator/coroutine object %s' % n)
                return ('callable', t)
            if n in sc.params or n in sc.types:
                self.fail(sc, call, 'call of local callable %s (add to CALLS)' % n)
            r = ix.resolve_expr(key.mod, f)
            return self._resolved_callable(sc, call, r, txt)
        if isinstance(f, ast.Attribute):
            # module-level dotted function / class
            r = ix.resolve_expr(key.mod, f, sc.params | set(sc.types) | {'self', 'cls'} | set(sc.env))
            if r is not None and r[0] in ('class', 'func'):
                return self._resolved_callable(sc, call, r, txt)
            if r is not None and r[0] == 'ext' and self.ix.dotted(f) and self.ix.dotted(f)[0] in key.mod.imports:
                return self._resolved_callable(sc, call, r, txt)
            if r is not None and r[0] == 'classattr':
                c = r[1]
                found = ix.find_method(c.qual, r[2][0]) if len(r[2]) == 1 else None
                if found and found[0] != 'ext':
                    return ('fns', [FnKey(found[0].mod, found[0], found[1], c.qual)])
            # method on a receiver
            tys = self.type_of(sc, f.value)
            m = f.attr
            if tys:
                if all(t.startswith('ext:') for t in tys):
                    outs = []
                    for t in tys:
                        kind = t[4:]
                        tab = T.EXT_METHODS.get(kind, {})
                        if m in tab:
                            outs.append(tab[m])
                        elif '*' in tab:
                            outs.append(tab['*'])
                        else:
                            self.fail(sc, call, 'method %s of external kind %s not in EXT_METHODS' % (m, kind))
                    if len(outs) == 1:
                        return ('spec', outs[0])
                    return ('spec', ('branch', outs))
                fns = []
                isself = isinstance(f.value, ast.Name) and f.value.id in ('self', 'cls')
                for t in tys:
                    static = t.startswith('static:')
                    t = t.replace('static:', '')
                    if t.startswith('ext:'):
                        self.fail(sc, call, 'mixed external/loaded receiver types')
                    cands = [t] if (isself or static) else ix.subclasses(t)
                    for q in cands:
                        found = ix.find_method(q, m)
                        if found is None:
                            # attribute holding a callable?
                            self.fail(sc, call, 'no method %s on %s (add to CALLS)' % (m, q))
                        if found[0] == 'ext':
                            base = found[1]
                            spec = T.EXT_BASE_METHODS.get((base, m))
                            if spec is None:
                                self.fail(sc, call, 'method %s inherited from external base %s (add to EXT_BASE_METHODS)' % (m, base))
                            return ('spec', spec)
                        k = FnKey(found[0].mod, found[0], found[1], q)
                        if k.name not in [x.name for x in fns]:
                            fns.append(k)
                return ('fns', fns)
            # untyped receiver: builtin-type method by name, only when no loaded class defines that name
            if m in T.GENERIC_METHODS:
                if m in self.wpull_method_names and m not in T.GENERIC_OK_DESPITE_WPULL:
                    self.fail(sc, call, 'receiver of .%s() is untyped and a loaded class defines %s (add %r to RECV_TYPES)' % (m, m, ast.unparse(f.value)))
                return ('spec', T.GENERIC_METHODS[m])
            self.fail(sc, call, 'cannot resolve call %s (receiver %r untyped)' % (txt, ast.unparse(f.value)))
        self.fail(sc, call, 'call of expression %s' % txt[:60])

    def _resolved_callable(self, sc, call, r, txt):
        key = sc.key
        if r is None:
            self.fail(sc, call, 'cannot resolve %s' % txt)
        if r[0] == 'func':
            return ('fns', [FnKey(r[1], None, r[2], None)])
        if r[0] == 'class':
            c = r[1]
            if self.is_exception_class(c):
                return ('term', SKIP)
            found = self.ix.find_method(c.qual, '__init__')
            if found is None or found[0] == 'ext':
                return ('term', SKIP)
            return ('fns', [FnKey(found[0].mod, found[0], found[1], c.qual)])
        if r[0] == 'const':
            if txt in T.CONST_CALLS:
                return ('spec', T.CONST_CALLS[txt])
            self.fail(sc, call, 'call of module constant %s (add to CONST_CALLS)' % txt)
        if r[0] == 'ext':
            n = r[1]
            if n in T.EXT_FUNCS:
                return ('spec', T.EXT_FUNCS[n])
            if '.' not in n and n in T.BUILTIN_EXCEPTIONS:
                return ('term', SKIP)
            self.fail(sc, call, 'external callable %s not in EXT_FUNCS' % n)
        self.fail(sc, call, 'cannot call %s (%s)' % (txt, r[0]))

    def is_exception_class(self, c):
        for q in self.ix.mro(c.qual):
            if q.startswith('ext:'):
                b = q[4:]
                if b in T.BUILTIN_EXCEPTIONS or b.split('.')[-1] in T.BUILTIN_EXCEPTIONS:
                    return True
        return False

    def call(self, sc, call):
        """-> (now, later)"""
        # argument effects; deferred arguments are collected for binding
        arg_now = []
        deferred_args = {}      # position or keyword -> term
        for i, a in enumerate(call.args):
            n, l = self.expr_d(sc, a)
            arg_now.append(n)
            if l is not None:
                deferred_args[i] = l
        for k in call.keywords:
            n, l = self.expr_d(sc, k.value)
            arg_now.append(n)
            if l is not None:
                deferred_args[k.arg] = l
        # the receiver expression's own effects
        if isinstance(call.func, ast.Attribute):
            rn, rl = self.expr_d(sc, call.func.value)
            arg_now.insert(0, rn)
            if rl is not None:
                self.fail(sc, call, 'method call on a generator/coroutine object')
        r = self.resolve_call(sc, call)
        now = seq(*arg_now)
        txt0 = ast.unparse(call.func)
        sc.call_counts[txt0] = sc.call_counts.get(txt0, 0) + 1
        nrk = self.safe_lookup(sc.key, 'noraise', '%s#%d' % (txt0, sc.call_counts[txt0]))
        nr = T.SAFE_SITES.get(nrk) if nrk is not None else None
        if nr is not None:
            self.used_safe.add(nrk)
            n1, l1 = self.call_resolved(sc, call, r, now, deferred_args)
            if l1 is not None:
                self.fail(sc, call, 'noraise on a deferred call')
            for c in nr[0]:
                self._use_class(c)
            return catch(n1, [(list(nr[0]), SKIP)]), None
        return self.call_resolved(sc, call, r, now, deferred_args)

    def call_resolved(self, sc, call, r, now, deferred_args):
        if r[0] == 'callable':
            if deferred_args:
                self.fail(sc, call, 'deferred argument passed to a local callable')
            _, term, isgen = r[1]
            if isgen:
                return now, term
            return seq(now, term), None
        if r[0] == 'term':
            if deferred_args:
                self.fail(sc, call, 'deferred argument passed to %s' % ast.unparse(call.func))
            return seq(now, r[1]), None
        if r[0] == 'spec':
            return self.apply_spec(sc, call, r[1], now, deferred_args)
        # translated functions
        fns = r[1]
        nows, laters, plain = [], [], False
        for k in fns:
            binds = []
            if deferred_args:
                params = [a.arg for a in k.fn.args.posonlyargs + k.fn.args.args]
                if k.cls is not None and not any(ast.unparse(d) == 'staticmethod' for d in k.fn.decorator_list):
                    params = params[1:]
                if isinstance(call.func, ast.Attribute) and isinstance(call.func.value, ast.Name) and False:
                    pass
                for pos, term in deferred_args.items():
                    if isinstance(pos, int):
                        if pos >= len(params):
                            self.fail(sc, call, 'deferred argument position')
                        binds.append((params[pos], term))
                    else:
                        binds.append((pos, term))
            cps = T.CONST_PARAMS.get(FnKey(k.mod, k.cls, k.fn, k.recv, (), k.path).defname)
            if cps:
                a = k.fn.args
                params = [x.arg for x in a.posonlyargs + a.args]
                defaults = dict(zip(params[len(params) - len(a.defaults):], a.defaults))
                for x, d in zip(a.kwonlyargs, a.kw_defaults):
                    if d is not None:
                        defaults[x.arg] = d
                if k.cls is not None and not any(ast.unparse(d) == 'staticmethod' for d in k.fn.decorator_list):
                    params = params[1:]
                for pname in cps:
                    given = None
                    for kw in call.keywords:
                        if kw.arg == pname:
                            given = kw.value
                    if given is None and pname in params and params.index(pname) < len(call.args) \
                            and not any(isinstance(x, ast.Starred) for x in call.args):
                        given = call.args[params.index(pname)]
                    if any(kw.arg is None for kw in call.keywords):
                        continue            # **kwargs: unknown
                    if given is None:
                        given = defaults.get(pname)
                        cv = given.value if isinstance(given, ast.Constant) else self.NOCONST
                    else:
                        cv = self.const_of(sc, given)
                    if cv is not self.NOCONST and isinstance(cv, (bool, int, str, type(None))):
                        binds.append((pname, ('const', cv)))
            binds.sort(key=lambda b: b[0])
            k2 = FnKey(k.mod, k.cls, k.fn, k.recv, binds, k.path)
            c = self.instance(k2)
            if is_gen_fn(k.fn):
                laters.append(c)
            elif self.is_lazy(k2):
                nows.append(c)
                laters.append(('call', k2.name + '$lazy'))
            else:
                nows.append(c)
                plain = True
        if laters and plain:
            self.fail(sc, call, 'call may reach both plain and generator-returning functions')
        if laters:
            return seq(now, branch(*nows) if nows else SKIP), branch(*laters)
        return seq(now, branch(*nows)), None

    def apply_spec(self, sc, call, spec, now, deferred_args):
        """spec forms:
           'pure'                        no effect
           'prim:<name>'                 primitive
           ('prim_unless_kw', name, kw, values)   primitive unless keyword kw is one of the constant values (or positional index given)
           ('prim_if_nargs', name, n)    primitive only when called with exactly n positional args
           'consume'                     consumes its deferred arguments here (list(), set(), ''.join, ...)
           ('consume_then', prim)        consume + primitive
           'transparent'                 result is the union of its deferred arguments (itertools.chain, iter)
           ('branch', [specs])
        """
        if isinstance(spec, tuple) and spec[0] == 'branch':
            outs = [self.apply_spec(sc, call, s, SKIP, dict(deferred_args)) for s in spec[1]]
            if any(l is not None for _, l in outs):
                self.fail(sc, call, 'branching spec with deferred result')
            return seq(now, branch(*[n for n, _ in outs])), None
        if isinstance(spec, tuple) and spec[0] == 'deferred':
            if deferred_args:
                self.fail(sc, call, 'deferred argument to a deferred primitive')
            return now, self.prim(spec[1])
        if spec == 'transparent':
            if not deferred_args:
                return now, None
            return now, branch(*deferred_args.values()) if len(deferred_args) > 1 else list(deferred_args.values())[0]
        if any(is_callable_term(t) for t in deferred_args.values()):
            self.fail(sc, call, 'local callable passed to %s' % ast.unparse(call.func))
        if isinstance(spec, tuple) and spec[0] == 'methods_of_recv':
            fns = []
            for m in spec[1]:
                found = self.ix.find_method(sc.key.recv, m)
                if not found or found[0] == 'ext':
                    self.fail(sc, call, 'methods_of_recv: %s' % m)
                fns.append(self.instance(FnKey(found[0].mod, found[0], found[1], sc.key.recv)))
            return seq(now, branch(*fns)), None
        if spec == 'consume' or (isinstance(spec, tuple) and spec[0] == 'consume_then'):
            extra = self.prim(spec[1]) if isinstance(spec, tuple) else SKIP
            inner = seq(*deferred_args.values())
            return seq(now, loop(inner), inner, extra), None
        if deferred_args:
            self.fail(sc, call, 'generator/coroutine object passed to %s (spec %r)' % (ast.unparse(call.func), spec))
        if spec == 'pure':
            return now, None
        if isinstance(spec, str) and spec.startswith('prim:'):
            return seq(now, self.prim(spec[5:])), None
        if isinstance(spec, tuple) and spec[0] == 'prim_unless_kw':
            _, name, kw, values, pos = spec
            val = None
            for k in call.keywords:
                if k.arg == kw:
                    val = k.value
            if val is None and pos is not None and len(call.args) > pos:
                val = call.args[pos]
            if val is not None:
                cv = self.const_of(sc, val)
                if cv is not self.NOCONST and cv in values:
                    return now, None
            return seq(now, self.prim(name)), None
        if isinstance(spec, tuple) and spec[0] == 'prim_unless_arg_const':
            _, name, pos, values = spec
            if len(call.args) > pos:
                cv = self.const_of(sc, call.args[pos])
                if cv is not self.NOCONST and cv in values:
                    return now, None
            return seq(now, self.prim(name)), None
        if isinstance(spec, tuple) and spec[0] == 'prim_if_nargs':
            _, name, n = spec
            if len(call.args) == n and not call.keywords:
                return seq(now, self.prim(name)), None
            return now, None
        raise Fail('bad spec %r for %s' % (spec, ast.unparse(call.func)))


# --------------------------------------------------------------------------
# Python mirror of Model/ExcLang.escapes, with witnesses (diagnostics only; the
# check itself is the Coq computation)
# --------------------------------------------------------------------------
class Mirror:
    def __init__(self, funs, mro, alias):
        self.funs, self.mro, self.alias = funs, mro, alias
        self.memo = {}
        self.stack = []

    def canon(self, c):
        return self.alias.get(c, c)

    def sub(self, c, k):
        return c == k or k in self.mro.get(c, ())

    def matches(self, c, cs):
        return any(self.sub(c, k) for k in cs)

    def overlap(self, k, cs):
        return any(self.sub(d, k) and self.matches(d, cs) for d in self.mro)

    def fn(self, name):
        if name in self.memo:
            return self.memo[name]
        if name in self.stack:
            return None
        self.stack.append(name)
        body = self.funs.get(name)
        r = None if body is None else self.tm(body, None, name)
        self.stack.pop()
        self.memo[name] = r
        return r

    def tm(self, t, cur, where):
        """dict class -> witness (list of strings) or None for unknown"""
        k = t[0]
        if k == 'skip':
            return {}
        if k == 'unknown':
            return None
        if k == 'raise':
            return {self.canon(t[1]): ['raise %s in %s' % (t[1], where)]}
        if k == 'reraise':
            return {cur: ['re-raise in %s' % where]} if cur else {}
        if k == 'prim':
            return {self.canon(c): ['prim %s in %s' % (t[1], where)] for c in T.PRIMS[t[1]][0]}
        if k == 'call':
            r = self.fn(t[1])
            if r is None:
                return None
            return {c: ['%s ->' % where] + w for c, w in r.items()}
        if k in ('seq', 'branch'):
            out = {}
            for u in t[1]:
                r = self.tm(u, cur, where)
                if r is None:
                    return None
                for c, w in r.items():
                    out.setdefault(c, w)
            return out
        if k == 'loop':
            return self.tm(t[1], cur, where)
        if k == 'finally':
            a = self.tm(t[1], cur, where)
            b = self.tm(t[2], cur, where)
            if a is None or b is None:
                return None
            out = dict(a)
            for c, w in b.items():
                out.setdefault(c, w)
            return out
        if k == 'ifcur':
            if cur is None:
                return self.tm(t[3], cur, where)
            cs = [self.canon(x) for x in t[1]]
            full, r = self.match_(cs, t[2], cur, ['(handling %s)' % cur], where, 'isinstance')
            if r is None:
                return None
            if full:
                return r
            e = self.tm(t[3], cur, where)
            if e is None:
                return None
            out = dict(r)
            for c2, w2 in e.items():
                out.setdefault(c2, w2)
            return out
        if k == 'catch':
            a = self.tm(t[1], cur, where)
            if a is None:
                return None
            out = {}
            for c, w in a.items():
                r = self.dispatch(t[2], c, w, where)
                if r is None:
                    return None
                for c2, w2 in r.items():
                    out.setdefault(c2, w2)
            return out
        raise ValueError(k)

    def match_(self, cs, h, c, w, where, label):
        """-> (full?, escapes of h when the current exception c (abstract) meets `cs`) ; None = unknown"""
        full = self.matches(c, cs)
        curs = [c] if full else []
        if not full:
            for h1 in cs:
                if self.sub(h1, c):
                    curs.append(h1)
                elif self.overlap(c, [h1]):
                    curs.append(c)
        out = {}
        for cur in curs:
            r = self.tm(h, cur, where)
            if r is None:
                return full, None
            for c2, w2 in r.items():
                if w2 and w2[0].startswith('re-raise'):
                    out.setdefault(c2, w)
                else:
                    out.setdefault(c2, w + ['%s by %s %s in %s, then' % ('caught' if full else 'possibly caught', label, '/'.join(x.split('.')[-1] for x in cs), where)] + w2)
        return full, out

    def dispatch(self, handlers, c, w, where):
        out = {}
        for classes, h in handlers:
            cs = ['builtins.BaseException'] if classes is None else [self.canon(x) for x in classes]
            full, r = self.match_(cs, h, c, w, where, 'except')
            if r is None:
                return None
            for c2, w2 in r.items():
                out.setdefault(c2, w2)
            if full:
                return out
        out.setdefault(c, w)
        return out


# --------------------------------------------------------------------------
# Coq printer
# --------------------------------------------------------------------------
def ident(s):
    return re.sub(r'[^A-Za-z0-9_]', '_', s)


class Printer:
    def __init__(self, funs, classes, mro, alias, prims_used, entries, handled):
        self.funs = funs
        self.alias = alias
        # class ids: every runtime class in the mro table + every class referred to
        names = []
        for c in classes:
            c = alias.get(c, c)
            if c not in names:
                names.append(c)
        for c, ms in mro.items():
            for x in [c] + list(ms):
                if x not in names:
                    names.append(x)
        self.cid = {c: i for i, c in enumerate(names)}
        self.fid = {f: i for i, f in enumerate(sorted(funs))}
        self.pid = {p: i for i, p in enumerate(sorted(prims_used))}
        self.mro = mro
        self.entries = entries
        self.handled = handled

    def c(self, name):
        return 'c_' + ident(self.alias.get(name, name))

    def clist(self, names):
        return '[' + '; '.join(self.c(n) for n in names) + ']'

    def tm(self, t):
        k = t[0]
        if k == 'skip':
            return 'Skip'
        if k == 'unknown':
            return '(Call 999999)'          # undefined function: may raise anything
        if k == 'raise':
            return '(Raise %s)' % self.c(t[1])
        if k == 'reraise':
            return 'Reraise'
        if k == 'prim':
            return '(Prim p_%s)' % ident(t[1])
        if k == 'call':
            return '(Call f_%s)' % ident(t[1])
        if k == 'seq':
            return self.fold('Seq', t[1])
        if k == 'branch':
            return self.fold('Branch', t[1])
        if k == 'loop':
            return '(Loop %s)' % self.tm(t[1])
        if k == 'finally':
            return '(Finally %s %s)' % (self.tm(t[1]), self.tm(t[2]))
        if k == 'ifcur':
            return '(Match %s %s %s)' % (self.clist(t[1]), self.tm(t[2]), self.tm(t[3]))
        if k == 'catch':
            d = 'Reraise'
            for classes, h in reversed(t[2]):
                cs = self.clist(classes) if classes is not None else '[c_builtins_BaseException]'
                d = '(Match %s %s %s)' % (cs, self.tm(h), d)
            return '(Catch %s %s)' % (self.tm(t[1]), d)
        raise ValueError(k)

    def fold(self, op, ts):
        if len(ts) == 1:
            return self.tm(ts[0])
        return '(%s %s %s)' % (op, self.tm(ts[0]), self.fold(op, ts[1:]))

    def text(self, header_comment):
        L = []
        L.append('(* GENERATED by harness/translate/excflow.py from the wpull working tree - do not edit.')
        L.append('   %s *)' % header_comment)
        L.append('From Coq Require Import List NArith.')
        L.append('From Wpull Require Import Model.ExcLang.')
        L.append('Import ListNotations.')
        L.append('Open Scope N_scope.')
        L.append('')
        L.append('(* exception classes (runtime names) *)')
        for c, i in sorted(self.cid.items(), key=lambda x: x[1]):
            L.append('Definition c_%s : cls := %d.' % (ident(c), i))
        L.append('')
        L.append('(* library primitives and their DECLARED may-raise classes (assumption; validated by fuzzing) *)')
        for p, i in sorted(self.pid.items(), key=lambda x: x[1]):
            L.append('Definition p_%s : prim := %d.   (* %s *)' % (ident(p), i, T.PRIMS[p][1].replace('*)', '* )')))
        L.append('')
        for f, i in sorted(self.fid.items(), key=lambda x: x[1]):
            L.append('Definition f_%s : fname := %d.' % (ident(f), i))
        L.append('')
        for f in sorted(self.funs):
            L.append('(* %s *)' % f)
            L.append('Definition body_%s : tm :=\n  %s.' % (ident(f), self.tm(self.funs[f])))
        L.append('')
        L.append('Definition the_prog : prog := {|')
        L.append('  funs := [' + ';\n    '.join('(f_%s, body_%s)' % (ident(f), ident(f)) for f in sorted(self.funs)) + '];')
        L.append('  prims := [' + ';\n    '.join('(p_%s, %s)' % (ident(p), self.clist(T.PRIMS[p][0])) for p in sorted(self.pid)) + '];')
        L.append('  mros := [' + ';\n    '.join('(%s, %s)' % (self.c(c), self.clist(ms)) for c, ms in sorted(self.mro.items())) + ']')
        L.append('|}.')
        L.append('')
        L.append('(* REMOTE_ERRORS of wpull/processor/base.py *)')
        L.append('Definition handled : list cls := %s.' % self.clist(self.handled))
        L.append('')
        for label, fs in self.entries.items():
            L.append('Definition entries_%s : list fname := [%s].' % (label, '; '.join('f_' + ident(f) for f in fs)))
        L.append('Definition fuel : nat := %d%%nat.   (* call-graph depth + 2; a call cycle makes the analysis answer "unknown" *)' % self.fuel)
        L.append('')
        return '\n'.join(L)


def term_calls(t, out):
    k = t[0]
    if k == 'call':
        out.add(t[1])
    elif k in ('seq', 'branch'):
        for u in t[1]:
            term_calls(u, out)
    elif k == 'loop':
        term_calls(t[1], out)
    elif k == 'finally':
        term_calls(t[1], out)
        term_calls(t[2], out)
    elif k == 'ifcur':
        term_calls(t[2], out)
        term_calls(t[3], out)
    elif k == 'catch':
        term_calls(t[1], out)
        for _, h in t[2]:
            term_calls(h, out)


def call_depth(funs):
    """(longest call chain, a call cycle or None)"""
    graph = {}
    for f, t in funs.items():
        s = set()
        term_calls(t, s)
        graph[f] = sorted(s)
    depth, state, cycle = {}, {}, []

    def visit(f, path):
        if state.get(f) == 2:
            return depth[f]
        if state.get(f) == 1:
            if not cycle:
                cycle.extend(path[path.index(f):] + [f])
            return 0
        state[f] = 1
        d = 1
        for g in graph.get(f, ()):
            if g in graph:
                d = max(d, 1 + visit(g, path + [g]))
        state[f] = 2
        depth[f] = d
        return d
    import sys
    old = sys.getrecursionlimit()
    sys.setrecursionlimit(10000)
    try:
        m = max([visit(f, [f]) for f in sorted(graph)] or [1])
    finally:
        sys.setrecursionlimit(old)
    return m, (cycle or None)


# --------------------------------------------------------------------------
# driver
# --------------------------------------------------------------------------
def translate(repo, class_dump):
    """class_dump(names) -> {'alias': {source name: runtime name}, 'mro': {runtime name: [proper superclasses]}, 'errors': [...]}
    Returns dict(text, errors, meta)."""
    tr = Translator(repo)
    errors = []
    try:
        entries = tr.run(T.ENTRIES)
    except Fail as e:
        return {'text': None, 'errors': [str(e)], 'meta': {}}
    errors += tr.errors
    # handled set
    fake = Scope(FnKey(tr.ix.mods[T.HANDLED_CONST[0]], None, None, None))
    try:
        handled = tr.cls_name(fake, ast.Name(id=T.HANDLED_CONST[1], ctx=ast.Load()))
    except Fail as e:
        errors.append(str(e))
        handled = []
    for p in T.PRIMS:
        for c in T.PRIMS[p][0]:
            tr._use_class(c)
    dump = class_dump(list(tr.used_classes))
    errors += dump.get('errors', [])
    alias, mro = dump['alias'], dump['mro']
    pr = Printer(tr.funs, tr.used_classes, mro, alias, tr.used_prims, entries, handled)
    depth, cycle = call_depth(tr.funs)
    pr.fuel = depth + 2
    if cycle:
        errors.append('call cycle in the translated summary (the analysis answers "unknown" for it): ' + ' -> '.join(cycle))
    text = pr.text('%d functions, %d primitives, %d classes' % (len(tr.funs), len(tr.used_prims), len(pr.cid)))
    stale = sorted(k for k in T.SAFE_SITES if k not in tr.used_safe)
    meta = {'functions': sorted(tr.funs), 'entries': entries, 'handled': handled,
            'safe_sites_used': len(tr.used_safe), 'safe_sites_stale': ['%s|%s|%s' % k for k in stale],
            'prims_used': sorted(tr.used_prims), 'unsafe_sites': tr.unsafe_sites, 'fid': pr.fid, 'cid': pr.cid, 'alias': alias, 'mro': mro}
    return {'text': text, 'errors': errors, 'meta': meta, 'funs': tr.funs, 'canon_seen': tr.canon_seen}
