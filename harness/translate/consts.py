"""Constants translator (T tie): module-level / class-level constant tables of wpull that the hand-written
models hard-code are REGENERATED from the working tree on every run into coq/Gen/Consts.v; the files
coq/Proofs/ConstsAgree.v prove (by computation inside Coq, for every value) that the models' constants
are exactly the generated ones.  A changed encode set, default port, status-code class ... breaks that
proof on the next run and names the constant.

Fail closed: the right-hand sides are evaluated by a tiny evaluator over the Python AST that knows
literals, names of constants defined earlier in the same scope, `a | b` on sets, frozenset(x), range(..),
chr(..), map(chr|ord, ..), one generator-expression shape, itertools.chain(..) and http.client.<NAME>.  Anything else raises
Unsupported and the check reports a broken tie."""
import ast
import http.client
import os

from harness.lib import common


class Unsupported(Exception):
    pass


def _ev(node, env, where):
    def bad(what):
        raise Unsupported('%s:%d: %s' % (where, getattr(node, 'lineno', 0), what))
    if isinstance(node, ast.Constant):
        if isinstance(node.value, (int, str, bytes)) and not isinstance(node.value, bool):
            return node.value
        bad('constant of type %s' % type(node.value).__name__)
    if isinstance(node, (ast.Tuple, ast.List)):
        return [_ev(e, env, where) for e in node.elts]
    if isinstance(node, ast.Set):
        return frozenset(_ev(e, env, where) for e in node.elts)
    if isinstance(node, ast.Dict):
        return {_ev(k, env, where): _ev(v, env, where) for k, v in zip(node.keys, node.values)}
    if isinstance(node, ast.Name):
        if node.id in env:
            return env[node.id]
        bad('name %s is not a constant defined earlier' % node.id)
    if isinstance(node, ast.BinOp) and isinstance(node.op, ast.BitOr):
        a, b = _ev(node.left, env, where), _ev(node.right, env, where)
        if isinstance(a, frozenset) and isinstance(b, frozenset):
            return a | b
        bad('| on non-sets')
    if isinstance(node, ast.BinOp) and isinstance(node.op, (ast.Add, ast.Sub)):
        a, b = _ev(node.left, env, where), _ev(node.right, env, where)
        if isinstance(a, int) and isinstance(b, int):
            return a + b if isinstance(node.op, ast.Add) else a - b
        bad('+/- on non-integers')
    if isinstance(node, ast.Attribute):
        # http.client.NO_CONTENT and friends: constants of the running interpreter's standard library
        if isinstance(node.value, ast.Attribute) and isinstance(node.value.value, ast.Name) and \
                node.value.value.id == 'http' and node.value.attr == 'client' and hasattr(http.client, node.attr):
            v = getattr(http.client, node.attr)
            if isinstance(v, int):
                return int(v)
        bad('attribute %s' % ast.dump(node)[:80])
    if isinstance(node, ast.Call) and not node.keywords:
        f = node.func
        name = f.id if isinstance(f, ast.Name) else (
            '%s.%s' % (f.value.id, f.attr) if isinstance(f, ast.Attribute) and isinstance(f.value, ast.Name) else None)
        args = node.args
        if name == 'frozenset' and len(args) == 1:
            if isinstance(args[0], ast.GeneratorExp):
                return frozenset(_gen(args[0], env, where))
            v = _ev(args[0], env, where)
            if isinstance(v, (bytes, str, list, frozenset)):
                return frozenset(v)
            bad('frozenset of %s' % type(v).__name__)
        if name == 'range' and 1 <= len(args) <= 2:
            vs = [_ev(a, env, where) for a in args]
            if all(isinstance(v, int) for v in vs) and (vs[-1] - (vs[0] if len(vs) == 2 else 0)) <= 4096:
                return list(range(*vs))
            bad('range arguments')
        if name == 'chr' and len(args) == 1:
            v = _ev(args[0], env, where)
            if isinstance(v, int):
                return chr(v)
        if name == 'map' and len(args) == 2 and isinstance(args[0], ast.Name) and args[0].id in ('chr', 'ord'):
            it = _ev(args[1], env, where)
            if isinstance(it, (list, frozenset, str, bytes)):
                try:
                    return [chr(x) if args[0].id == 'chr' else ord(x) for x in it]
                except (TypeError, ValueError):
                    bad('map(%s, ...) over %r' % (args[0].id, type(it).__name__))
        if name == 'itertools.chain':
            out = []
            for a in args:
                v = _ev(a, env, where)
                if not isinstance(v, (list, frozenset)):
                    bad('chain of %s' % type(v).__name__)
                out += list(v)
            return out
        bad('call of %s' % name)
    bad('expression %s' % type(node).__name__)


def _gen(node, env, where):
    """(<elt> for <name> in <iter>) with one generator and no condition"""
    if len(node.generators) != 1 or node.generators[0].ifs or not isinstance(node.generators[0].target, ast.Name):
        raise Unsupported('%s:%d: generator expression shape' % (where, node.lineno))
    g = node.generators[0]
    it = _ev(g.iter, env, where)
    out = []
    for x in it:
        out.append(_ev(node.elt, dict(env, **{g.target.id: x}), where))
    return out


def constants_of(path, names, cls=None):
    """evaluate the named constants assigned at module level (or directly inside class `cls`) of a source file"""
    rel = path
    tree = ast.parse(open(path).read(), path)
    body = tree.body
    if cls is not None:
        found = [n for n in tree.body if isinstance(n, ast.ClassDef) and n.name == cls]
        if len(found) != 1:
            raise Unsupported('%s: class %s not found' % (rel, cls))
        body = found[0].body
    env, seen = {}, {}
    for node in body:
        if isinstance(node, ast.Assign) and len(node.targets) == 1 and isinstance(node.targets[0], ast.Name):
            name = node.targets[0].id
            if not name.isupper() and name not in names:
                continue
            try:
                env[name] = _ev(node.value, env, rel)
            except Unsupported:
                if name in names:
                    raise
                continue
            if name in names:
                if name in seen:
                    raise Unsupported('%s: %s assigned twice' % (rel, name))
                seen[name] = env[name]
    missing = [n for n in names if n not in seen]
    if missing:
        raise Unsupported('%s: constant(s) %s not found' % (rel, ', '.join(missing)))
    return seen


def _threshold(path, node):
    """an int literal, or a class-level / module-level constant of ItemSession's file that evaluates to one"""
    if isinstance(node, ast.Constant):
        return node.value if isinstance(node.value, int) and not isinstance(node.value, bool) else None
    try:
        if isinstance(node, ast.Attribute) and isinstance(node.value, ast.Name) and node.value.id in ('self', 'cls', 'ItemSession'):
            v = constants_of(path, [node.attr], cls='ItemSession')[node.attr]
        elif isinstance(node, ast.Name):
            v = constants_of(path, [node.id])[node.id]
        else:
            return None
    except Unsupported:
        return None
    return v if isinstance(v, int) and not isinstance(v, bool) else None


def child_batch_size(path):
    """the size at which ItemSession.add_url commits its batch: the method must have exactly one statement of the shape
         if len(self.<batch>) >= <int | named int constant>:  <...add_many(self.<batch>)>; <self.<batch>.clear()>
    and no other use of a numeric threshold; anything else is Unsupported"""
    tree = ast.parse(open(path).read(), path)
    cls = [n for n in tree.body if isinstance(n, ast.ClassDef) and n.name == 'ItemSession']
    if len(cls) != 1:
        raise Unsupported('%s: class ItemSession not found' % path)
    fn = [n for n in cls[0].body if isinstance(n, ast.FunctionDef) and n.name == 'add_url']
    if len(fn) != 1:
        raise Unsupported('%s: ItemSession.add_url not found' % path)
    ifs = [n for n in ast.walk(fn[0]) if isinstance(n, ast.If)]
    found = []
    for n in ifs:
        t = n.test
        if isinstance(t, ast.Compare) and len(t.ops) == 1 and isinstance(t.ops[0], ast.GtE) and \
                isinstance(t.left, ast.Call) and isinstance(t.left.func, ast.Name) and t.left.func.id == 'len' and \
                len(t.left.args) == 1 and isinstance(t.left.args[0], ast.Attribute) and \
                _threshold(path, t.comparators[0]) is not None and not n.orelse:
            calls = [ast.dump(x.value.func) for x in n.body if isinstance(x, ast.Expr) and isinstance(x.value, ast.Call)]
            batch = ast.dump(t.left.args[0])
            want_clear = ast.dump(ast.Attribute(value=t.left.args[0], attr='clear', ctx=ast.Load()))
            args_ok = len(n.body) == 2 and isinstance(n.body[0], ast.Expr) and isinstance(n.body[0].value, ast.Call) and \
                [ast.dump(a) for a in n.body[0].value.args] == [batch]
            if args_ok and len(calls) == 2 and calls[1] == want_clear and 'add_many' in calls[0]:
                found.append(_threshold(path, t.comparators[0]))
                continue
        if any(isinstance(x, ast.Call) and isinstance(x.func, ast.Name) and x.func.id == 'len' for x in ast.walk(t)):
            raise Unsupported('%s:%d: a size test of another shape in ItemSession.add_url' % (path, n.lineno))
    if len(found) != 1 or not (1 <= found[0] <= 10 ** 6):
        raise Unsupported('%s: ItemSession.add_url: expected exactly one batch-size test, found %r' % (path, found))
    return found[0]


# --------------------------------------------------------------------------
def _codes(v, what):
    """a set of characters / bytes as a sorted list of code points"""
    out = []
    for x in v:
        if isinstance(x, int):
            out.append(x)
        elif isinstance(x, str) and len(x) == 1:
            out.append(ord(x))
        else:
            raise Unsupported('%s: element %r' % (what, x))
    return sorted(set(out))


def _nlist(xs):
    return '[' + '; '.join(str(x) for x in xs) + ']'


def _zlist(xs):
    return '[' + '; '.join('(%d)%%Z' % x for x in xs) + ']'


def _str(s):
    return _nlist([ord(c) for c in s])


HEADER = '''(* GENERATED by harness/translate/consts.py from the working tree of wpull - do not edit.
   Sources: wpull/url.py, wpull/protocol/http/stream.py, wpull/processor/web.py, wpull/protocol/http/redirect.py,
   wpull/pipeline/session.py *)
From Coq Require Import List NArith ZArith.
Import ListNotations.
Open Scope N_scope.
'''


def render(repo):
    J = lambda *p: os.path.join(repo, 'wpull', *p)
    u = constants_of(J('url.py'), ['RELATIVE_SCHEME_DEFAULT_PORTS', 'C0_CONTROL_SET', 'DEFAULT_ENCODE_SET', 'PASSWORD_ENCODE_SET',
                                   'USERNAME_ENCODE_SET', 'QUERY_ENCODE_SET', 'FRAGMENT_ENCODE_SET', 'FORBIDDEN_HOSTNAME_CHARS'])
    st = constants_of(J('protocol', 'http', 'stream.py'), ['DEFAULT_NO_CONTENT_CODES'])
    wp = constants_of(J('processor', 'web.py'), ['DOCUMENT_STATUS_CODES', 'NO_DOCUMENT_STATUS_CODES'], cls='WebProcessor')
    rt = constants_of(J('protocol', 'http', 'redirect.py'), ['REDIRECT_CODES', 'REPEAT_REDIRECT_CODES'], cls='RedirectTracker')
    ports = u['RELATIVE_SCHEME_DEFAULT_PORTS']
    if not isinstance(ports, dict) or not all(isinstance(k, str) and isinstance(v, int) for k, v in ports.items()):
        raise Unsupported('RELATIVE_SCHEME_DEFAULT_PORTS is not a dict of str -> int')
    lines = [HEADER]
    lines.append('Definition gen_default_ports : list (list N * N) :=\n  [%s].' % '; '.join(
        '(%s, %d)' % (_str(k), ports[k]) for k in sorted(ports)))
    for name in ('C0_CONTROL_SET', 'DEFAULT_ENCODE_SET', 'PASSWORD_ENCODE_SET', 'USERNAME_ENCODE_SET', 'QUERY_ENCODE_SET',
                 'FRAGMENT_ENCODE_SET', 'FORBIDDEN_HOSTNAME_CHARS'):
        lines.append('Definition gen_%s : list N := %s.' % (name.lower(), _nlist(_codes(u[name], name))))
    lines.append('Definition gen_no_content_codes : list N := %s.' % _nlist(_codes(st['DEFAULT_NO_CONTENT_CODES'], 'DEFAULT_NO_CONTENT_CODES')))
    for name, v in (('document_status_codes', wp['DOCUMENT_STATUS_CODES']), ('no_document_status_codes', wp['NO_DOCUMENT_STATUS_CODES']),
                    ('redirect_codes', rt['REDIRECT_CODES']), ('repeat_redirect_codes', rt['REPEAT_REDIRECT_CODES'])):
        if not (isinstance(v, list) and all(isinstance(x, int) for x in v)):
            raise Unsupported('%s is not a tuple of int' % name)
        lines.append('Definition gen_%s : list Z := %s.' % (name, _zlist(v)))
    lines.append('Definition gen_child_batch_size : N := %d.' % child_batch_size(J('pipeline', 'session.py')))
    return '\n'.join(lines) + '\n'


def generate(repo, outdir=None):
    """regenerate coq/Gen/Consts.v; returns list of error strings"""
    outdir = outdir or os.path.join(common.COQ, 'Gen')
    path = os.path.join(outdir, 'Consts.v')
    try:
        text = render(repo)
    except Unsupported as e:
        if os.path.exists(path):
            os.remove(path)          # fail closed: nothing stale may be proved about
        return ['constants translator cannot express %s' % e]
    except (OSError, SyntaxError) as e:
        if os.path.exists(path):
            os.remove(path)
        return ['constants translator failed: %r' % (e,)]
    os.makedirs(outdir, exist_ok=True)
    old = open(path).read() if os.path.exists(path) else None
    if old != text:
        with open(path, 'w') as f:
            f.write(text)
    return []


if __name__ == '__main__':
    import sys
    print(render(sys.argv[1] if len(sys.argv) > 1 else common.REPO))
