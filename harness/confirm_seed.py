#!/usr/bin/env python3
"""Confirm seeded changes produced by independent sub-agents and file them under /verif/seeded/.
Usage: harness/confirm_seed.py <PID> <outdir> [first_index]
For each <outdir>/<i>/: scratch worktree of /repo HEAD; demo on clean tree must exit 0; patch must apply; demo on the patched tree
must exit 1; the 111 baseline tests must still pass with the patch.  Confirmed ones are copied to seeded/<PID>-<n>/."""
import json
import os
import shutil
import subprocess
import sys
import tempfile
import xml.etree.ElementTree as ET

HERE = os.path.dirname(os.path.dirname(os.path.abspath(__file__)))
TOOLS = os.path.join(HERE, 'seeded', 'tools')


def run(cmd, cwd, env=None, timeout=900):
    try:
        p = subprocess.run(cmd, cwd=cwd, env=env, capture_output=True, text=True, timeout=timeout)
        return p.returncode, (p.stdout + p.stderr)[-600:]
    except subprocess.TimeoutExpired:
        return 124, 'timeout'


def baseline_ok(wt):
    base = set(json.load(open('/root/.vp/BASELINE.json'))['stable_pass'])
    x = os.path.join(wt, '.junit.xml')
    run(['/venv/bin/python', '-m', 'pytest', '-q', '-p', 'no:cacheprovider', '--timeout=900', '--continue-on-collection-errors',
         '--junitxml=' + x], wt)
    passed = set()
    try:
        for tc in ET.parse(x).getroot().iter('testcase'):
            if not list(tc):
                passed.add('%s::%s' % (tc.get('classname'), tc.get('name')))
    finally:
        if os.path.exists(x):
            os.remove(x)
    return base <= passed, sorted(base - passed)[:3]


def main():
    pid, out = sys.argv[1], sys.argv[2]
    existing = [d for d in os.listdir(os.path.join(HERE, 'seeded')) if d.startswith(pid + '-')]
    nxt = max([int(d.split('-')[1]) for d in existing] + [0]) + 1
    for i in sorted(os.listdir(out)):
        d = os.path.join(out, i)
        if not (os.path.isdir(d) and os.path.exists(os.path.join(d, 'patch.diff')) and os.path.exists(os.path.join(d, 'demo.py'))):
            continue
        wt = tempfile.mkdtemp(prefix='verif-seedconf-')
        os.rmdir(wt)
        subprocess.run(['git', '-C', '/repo', 'worktree', 'add', '-q', '--detach', wt, 'HEAD'], check=True)
        try:
            env = dict(os.environ, PYTHONPATH='%s:%s' % (wt, TOOLS), PYTHONHASHSEED='0')
            # demos were written against the agent's own worktree path: run a copy with that path rewritten
            demo = open(os.path.join(d, 'demo.py')).read()
            src = None
            for cand in ('/tmp/seed-%s' % pid.lower(),):
                if cand in demo:
                    src = cand
            tmpd = tempfile.mkdtemp(prefix='verif-seeddemo-')
            demo2 = demo.replace('/tmp/seedtools', TOOLS)
            if src:
                demo2 = demo2.replace(src + '-out', tmpd).replace(src, wt)
            dp = os.path.join(tmpd, 'demo.py')
            open(dp, 'w').write(demo2)
            rc0, o0 = run(['/venv/bin/python', dp], tmpd, env)
            a = subprocess.run(['git', '-C', wt, 'apply', os.path.join(d, 'patch.diff')], capture_output=True, text=True)
            if a.returncode != 0:
                print(pid, i, 'REJECT patch does not apply', a.stderr[:200]); continue
            rc1, o1 = run(['/venv/bin/python', dp], tmpd, env)
            ok, missing = baseline_ok(wt)
            shutil.rmtree(tmpd, ignore_errors=True)
            verdict = rc0 == 0 and rc1 not in (0, 124) and ok
            print(pid, i, 'CONFIRMED' if verdict else 'REJECT', 'clean rc=%d patched rc=%d baseline=%s %s' % (rc0, rc1, ok, missing))
            if not verdict:
                print('   clean:', o0[-300:].replace('\n', ' | ')); print('   patched:', o1[-300:].replace('\n', ' | '))
                continue
            dst = os.path.join(HERE, 'seeded', '%s-%d' % (pid, nxt)); nxt += 1
            os.makedirs(dst)
            shutil.copy(os.path.join(d, 'patch.diff'), dst)
            open(os.path.join(dst, 'demo.py'), 'w').write(demo)
            meta = json.load(open(os.path.join(d, 'meta.json'))) if os.path.exists(os.path.join(d, 'meta.json')) else {}
            meta['property'] = pid
            meta['confirmed_by_lead'] = {'repo_head': subprocess.run(['git', '-C', '/repo', 'rev-parse', '--short', 'HEAD'], capture_output=True, text=True).stdout.strip(),
                                         'demo_clean_rc': rc0, 'demo_patched_rc': rc1, 'baseline_111_pass_with_patch': ok,
                                         'how': 'harness/confirm_seed.py: scratch worktree of /repo HEAD, demo (PYTHONPATH=<worktree>:seeded/tools) before and after git apply, baseline pytest junit compared with BASELINE.json stable_pass',
                                         'patched_demo_tail': o1[-300:]}
            json.dump(meta, open(os.path.join(dst, 'meta.json'), 'w'), indent=1)
        finally:
            subprocess.run(['git', '-C', '/repo', 'worktree', 'remove', '--force', wt])


if __name__ == '__main__':
    main()
