#!/bin/sh
# coqc under a per-file time and memory limit (used by every make in /verif)
ulimit -v 14000000 2>/dev/null
exec timeout 900 coqc "$@"
